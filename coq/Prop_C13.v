(* Prop_C13.v — C13: try_* outcomes are exact in quiescent states.
   For EVERY scenario "get the key; try_lock / try_read collection c; drop the guard" over any acquirable
   shape (single lock, any collection kind, any nesting, any size, any address arrangement, any
   Poisonable wrapping) with duplicate-free leaves and any pre-existing holds of other threads, the
   model's observation satisfies the monitor: Ok iff every leaf is free (try_lock) / not write-held
   (try_read) — independently of kind, arrangement and nesting —, a refusal leaves the hold table as it
   was, success holds every leaf and dropping the guard restores the table. *)
From HL Require Import Base Model Shape Algo Api Lemmas ShapeLemmas Check Monitors Pf_C13 Pf_Hist Pf_Hist4 Pf_Hist13.

Theorem C13_try_exact :
  forall sc c m s t, wf_C13 sc c m s t -> mon_C13 sc (model_obs sc) = true.
Proof. exact C13_main. Qed.

Check C13_try_exact :
  forall sc c m s t, wf_C13 sc c m s t -> mon_C13 sc (model_obs sc) = true.

(* non-vacuity: a nested scenario with a contended leaf meets the hypotheses *)
Definition ex13_shape : shape :=
  SBoxed (SSeq [SLeaf KRw 2; SRetry (SSeq [SLeaf KRw 0; SPoison 0 (SLeaf KRw 1)])]).
Definition ex13 : scen :=
  mks 3 1 [2; 0; 1] [] [ex13_shape] [(1, mkraw None [100; 101])] [] [] 4
      [(0, AKeyGet); (0, AAcquire 0 Sh FTry); (0, AGuardDrop)].

Example C13_nonvacuous : wf_C13 ex13 0 Sh ex13_shape 0.
Proof.
  constructor; try reflexivity.
  - repeat constructor; simpl; intuition discriminate.
  - simpl. intros l [H|[H|[H|[]]]]; subst; auto.
  - simpl. intros _ k l [H|[H|[H|[]]]]; inversion H; reflexivity.
Qed.

Example C13_example_runs : mon_C13 ex13 (model_obs ex13) = true.
Proof. vm_compute. reflexivity. Qed.

(* the scoped variants scoped_try_lock / scoped_try_read (key lent or moved in, any closure, panicking or not): the
   closure runs — the call returns Ok, or unwinds if the closure panics — exactly when every leaf is available, and the
   hold table is afterwards as it was *)
Theorem C13_scoped_try_exact :
  forall sc t c m lent body, wf_histb sc && wf4b sc = true ->
  sc_hist sc = [(t, AKeyGet); (t, AAcquire c m (FScopedTry lent body))] ->
  mon_C13 sc (model_obs sc) = true.
Proof.
  intros sc t c m lent body H. apply andb_true_iff in H. destruct H as [A B].
  apply Pf_Hist4.C13_scoped_try_exact; [now apply wf_histb_ok|now apply wf4b_ok].
Qed.

Definition ex13s : scen :=
  mks 3 1 [2; 0; 1] [] [ex13_shape] [(1, mkraw None [100; 101])] [] [] 4
      [(0, AKeyGet); (0, AAcquire 0 Sh (FScopedTry true [CRead 1; CPanic]))].
Definition ex13s' : scen :=
  mks 3 1 [2; 0; 1] [] [ex13_shape] [(1, mkraw None [100; 101])] [] [] 4
      [(0, AKeyGet); (0, AAcquire 0 Ex (FScopedTry false [CWrite 1]))].
Example C13_scoped_nonvacuous :
  wf_histb ex13s && wf4b ex13s = true /\ map co_ret (model_obs ex13s) = [RB true; RPanicked] /\
  wf_histb ex13s' && wf4b ex13s' = true /\ map co_ret (model_obs ex13s') = [RB true; RWouldBlock].
Proof. vm_compute. repeat split. Qed.

(* the same at EVERY non-blocking acquisition of EVERY fault-free history (any number of threads, any calls before it:
   guards taken, dropped, forgotten, panics, poisoned wrappers, Debug formatting, ...): histories are API-call-atomic, so
   each call runs with no concurrent activity; a try / scoped try is refused exactly when some leaf of its root is
   unavailable in the hold table the previous call left *)
Theorem C13_every_history :
  forall sc, wf_histb sc && wf4b sc = true -> mon_C13h sc (model_obs sc) = true.
Proof. exact C13_all_histories_dec. Qed.
Check C13_every_history : forall sc, wf_histb sc && wf4b sc = true -> mon_C13h sc (model_obs sc) = true.

(* non-vacuity: thread 0 takes a guard on a nested collection, formats it, panics with the guard alive; thread 1 then
   tries a lock next to a leaf that is still read-held by somebody else, and one that is free *)
Definition ex13h : scen :=
  mks 3 1 [2; 0; 1] [] [ex13_shape; SLeaf KRw 2; SLeaf KRw 0] [(2, mkraw None [100])] [] [] 4
      [(0, AKeyGet); (0, AAcquire 0 Sh FTry); (0, AFmt 0); (0, APanic);
       (1, AKeyGet); (1, AAcquire 1 Ex FTry); (1, AGuardDrop); (1, AAcquire 2 Ex (FScopedTry true [CWrite 0]))].
Example C13_every_history_nonvacuous :
  wf_histb ex13h && wf4b ex13h = true /\
  map co_ret (model_obs ex13h) = [RB true; ROk; RN 0; RPanicked; RB true; RWouldBlock; RSkipped; ROk].
Proof. vm_compute. split; reflexivity. Qed.

Print Assumptions C13_try_exact.
Print Assumptions C13_every_history.
Print Assumptions C13_scoped_try_exact.
