(* Api.v — the public API of happylock as programs over Algo.v, the per-thread user state (key in hand,
   live guard), API-call-atomic histories of several threads, and what is observed of them. *)
From HL Require Import Base Model Shape Algo.

(* ---------------------------------------------------------------- user-visible per-thread state *)
Record guardrec := mkg { g_mode : mode; g_items : list gitem }.
Record tlocal := mkt { haskey : bool; guard : option guardrec }.
Definition tl0 : tlocal := mkt false None.

(* what a scoped closure / guard user does *)
Inductive csop := CRead (pos : nat) | CWrite (pos : nat) | CPanic | CProbe.

Inductive flavour :=
| FGuard                                      (* lock / read / write *)
| FTry                                        (* try_lock / try_read / try_write *)
| FScoped (lent : bool) (body : list csop)    (* scoped_lock / scoped_read / scoped_write; key by &mut or by value *)
| FScopedTry (lent : bool) (body : list csop).

Inductive apiop :=
| AKeyGet | AKeyDrop | AKeyForget
| AAcquire (c : nat) (m : mode) (f : flavour)
| AGuardDrop | AGuardUnlock | AGuardForget
| AGuardRead (pos : nat) | AGuardWrite (pos : nat)
| APanic                                       (* user code panics; a live guard / key in hand is unwound *)
| AIsPoisoned (c : nat) | AClearPoison (c : nat)
| AFmt (c : nat).                              (* format!("{:?}", lock or collection) *)

Inductive rcode :=
| ROk | RWouldBlock | RPoisoned | RPanicked | RBlockedC | RAborted | RFuelOut | RSkipped
| RB (b : bool) | RN (n : nat).

Record env := mkenv { e_am : addrmap; e_colls : list shape; e_fuel : nat }.

Definition keydrop : prog := op_ OKeyUnlock.

(* A function that received the key by value: the key is dropped by unwinding if [body] panics ([dp]),
   and by an explicit drop(key) / end of scope when [body] completes ([dd]).  With a key that is only
   lent (`&mut ThreadKey`) or handed back to the caller both are false. *)
Definition with_key (dp dd : bool) (body : prog) : prog :=
  Bind (Catch body (if dp then keydrop else skip))
       (fun v => (if dd then keydrop else skip) ;; Ret v).

Definition root_poison (s : shape) : option pid :=
  match s with SPoison p _ => Some p | _ => None end.

Definition see_all (ps : list pid) : prog := seqs (map (fun p => op_ (OSeePoison p)) ps).

(* result of a successful guard acquisition: VNat 0 = Ok(guard), VNat 2 = Err(PoisonError(guard)) *)
Definition poison_result (s : shape) : prog :=
  match root_poison s with
  | Some p => Op (OPoisoned p) (fun v => Ret (VNat (if vtrue v then 2 else 0)))
  | None => Ret (VNat 0)
  end.

Definition nth_leaf (items : list gitem) (pos : nat) : option (lkind * lock) :=
  nth_error (gleaves items) pos.

Definition cs_prog (m : mode) (items : list gitem) (o : csop) : prog :=
  match o with
  | CRead pos  => match nth_leaf items pos with Some (_, l) => op_ (ORead pos l) | None => skip end
  | CWrite pos => match m, nth_leaf items pos with
                  | Ex, Some (_, l) => op_ (OWrite pos l)
                  | _, _ => skip
                  end
  | CPanic => Throw
  | CProbe => op_ OKeyProbe
  end.

(* the closure: the harness's closure records that it was entered, looks at every Ok/Err wrapper of the
   data structure it was given, then performs its accesses *)
Definition closure (m : mode) (items : list gitem) (body : list csop) : prog :=
  op_ (OMark 1) ;; see_all (gpoisons items) ;; seqs (map (cs_prog m items) body).

(* scoped_* : utils.rs:127-223, mutex.rs:232-283, rwlock.rs:253-347 (release after drop(key));
   poisonable.rs:303-357, 490-544 (poison in the handler, release before drop(key)).
   [acq] is the acquisition already wrapped as needed; the part under the key is what runs before drop(key). *)
Definition scoped_rest (m : mode) (s : shape) (a : alg) (lent : bool) (body : list csop) (acq : prog) : prog :=
  let items := gitems s in
  let own := negb lent in
  match root_poison s with
  | None =>
      Bind (with_key own own (acq ;; Catch (closure m items body) (raw_unlock m a)))
           (fun _ => raw_unlock m a ;; Ret (VNat 0))
  | Some p =>
      Bind (with_key own own (acq ;; Catch (closure m items body) (op_ (OPoison p) ;; raw_unlock m a) ;;
                              raw_unlock m a))
           (fun _ => Ret (VNat 0))
  end.

Definition fmt_leaf (k : lkind) (l : lock) : prog :=
  let m := match k with KMutex => Ex | KRw => Sh end in      (* try_lock_no_key / try_read_no_key *)
  Bind (leaf_try m k l)
       (fun v => if vtrue v then op_ (ORead 0 l) ;; leaf_unlock m k l ;; Ret (VNat 0)
                 else Ret (VNat 1)).

(* the leaves whose Debug impl is reached, in order (Boxed prints only a pointer: boxed.rs:165-174) *)
Fixpoint fmt_leaves (s : shape) : list (lkind * lock) :=
  match s with
  | SLeaf k l => [(k, l)]
  | SSeq ss => flat_map fmt_leaves ss
  | SBoxed _ => []
  | SRefC s' | SRetry s' | SOwned _ s' | SPoison _ s' => fmt_leaves s'
  end.

Fixpoint fmt_list (acc : nat) (ls : list (lkind * lock)) : prog :=
  match ls with
  | [] => Ret (VNat acc)
  | (k, l) :: r => Bind (fmt_leaf k l) (fun v => fmt_list (match v with VNat n => acc + n | _ => acc end) r)
  end.

Definition coll (e : env) (c : nat) : option shape := nth_error (e_colls e) c.

(* the program of one API call, [None] when the call is not possible in this user state (Rust's move
   semantics make it untypable) *)
Definition api_prog (e : env) (lc : tlocal) (o : apiop) : option prog :=
  match o with
  | AKeyGet => Some (Op OKeyTry Ret)
  | AKeyDrop => if haskey lc then Some keydrop else None
  | AKeyForget => if haskey lc then Some skip else None
  | AAcquire c m f =>
      match coll e c, haskey lc with
      | Some s, true =>
          let a := alg_of (e_am e) s in
          let items := gitems s in
          match f with
          | FGuard =>
              Some (with_key true false (raw_lock (e_fuel e) m a ;; see_all (gpoisons items) ;; poison_result s))
          | FTry =>
              Some (with_key true false
                      (Bind (raw_try m a)
                            (fun v => if vtrue v then see_all (gpoisons items) ;; poison_result s
                                      else Ret (VNat 1))))
          | FScoped lent body =>
              Some (scoped_rest m s a lent body (raw_lock (e_fuel e) m a))
          | FScopedTry lent body =>
              Some (Bind (with_key (negb lent) false (raw_try m a))
                         (fun v => if vtrue v then scoped_rest m s a lent body skip
                                   else Ret (VNat 1)))
          end
      | _, _ => None
      end
  | AGuardDrop =>
      match guard lc with
      | Some g => Some (with_key true true (drop_items (g_mode g) false (g_items g)))
      | None => None
      end
  | AGuardUnlock =>
      match guard lc with
      | Some g => Some (with_key true false (drop_items (g_mode g) false (g_items g)))
      | None => None
      end
  | AGuardForget => match guard lc with Some _ => Some skip | None => None end
  | AGuardRead pos =>
      match guard lc with Some g => Some (cs_prog (g_mode g) (g_items g) (CRead pos)) | None => None end
  | AGuardWrite pos =>
      match guard lc with Some g => Some (cs_prog (g_mode g) (g_items g) (CWrite pos)) | None => None end
  | APanic =>
      match guard lc with
      | Some g => Some (Bind (with_key true true (drop_items (g_mode g) true (g_items g))) (fun _ => Throw))
      | None => Some (Bind (with_key false (haskey lc) skip) (fun _ => Throw))
      end
  | AIsPoisoned c =>
      match coll e c with
      | Some (SPoison p _) => Some (Op (OPoisoned p) Ret)
      | _ => None
      end
  | AClearPoison c =>
      match coll e c with
      | Some (SPoison p _) => Some (op_ (OClearPoison p))
      | _ => None
      end
  | AFmt c =>
      match coll e c with
      | Some s => Some (fmt_list 0 (fmt_leaves s))
      | None => None
      end
  end.

Definition is_lent (f : flavour) : bool :=
  match f with FScoped l _ | FScopedTry l _ => l | _ => false end.

(* the user state after the call, and what the call returned *)
Definition api_fin (e : env) (lc : tlocal) (o : apiop) (out : outcome) : tlocal * rcode :=
  let bad := match out with
             | OPanic => RPanicked | OBlocked => RBlockedC | OAbort => RAborted | OFuel => RFuelOut
             | ODone _ => ROk end in
  match o with
  | AKeyGet =>
      match out with
      | ODone v => (mkt (haskey lc || vtrue v) (guard lc), RB (vtrue v))
      | _ => (lc, bad)
      end
  | AKeyDrop | AKeyForget => (mkt false (guard lc), bad)
  | AAcquire c m f =>
      match out, f with
      | ODone (VNat 1), _ => (lc, RWouldBlock)                       (* Err(key): the key comes back *)
      | ODone v, (FGuard | FTry) =>
          let items := match coll e c with Some s => gitems s | None => [] end in
          (mkt false (Some (mkg m items)),
           match v with VNat 2 => RPoisoned | _ => ROk end)
      | ODone _, (FScoped lent _ | FScopedTry lent _) => (mkt lent None, ROk)
      | _, _ => (mkt (is_lent f) None, bad)                         (* unwinding drops a key passed by value *)
      end
  | AGuardDrop => (mkt false None, bad)
  | AGuardUnlock => (mkt (match out with ODone _ => true | _ => false end) None, bad)
  | AGuardForget => (mkt (haskey lc) None, bad)
  | AGuardRead _ | AGuardWrite _ => (lc, bad)
  | APanic => (mkt false None, bad)
  | AIsPoisoned _ => (lc, match out with ODone v => RB (vtrue v) | _ => bad end)
  | AClearPoison _ => (lc, bad)
  | AFmt _ => (lc, match out with ODone (VNat n) => RN n | _ => bad end)
  end.

(* ---------------------------------------------------------------- histories *)
Record callobs := mkco {
  co_tid : tid;
  co_ret : rcode;
  co_evs : list ev;            (* events of this call, oldest first *)
  co_holds : list rawst;       (* hold table after the call, locks 0..n-1 *)
  co_psn : list bool;          (* is_poisoned of wrappers 0..np-1 *)
  co_keyfree : bool            (* ThreadKey::get().is_some() on the calling thread, right after the call *)
}.

Record hstate := mkh { h_w : world; h_loc : tid -> tlocal; h_stop : bool }.


Definition snapshot_holds (n : nat) (w : world) : list rawst := map (w_raw w) (seq 0 n).
Definition snapshot_psn (n : nat) (w : world) : list bool := map (w_psn w) (seq 0 n).

Definition clear_trace (w : world) : world :=
  mkw (w_raw w) (w_kill w) (w_psn w) (w_data w) (w_keyf w) (w_opc w) (w_f1 w) (w_fp w) [].

Definition stops (r : rcode) : bool :=
  match r with RBlockedC | RAborted | RFuelOut => true | _ => false end.

Definition hstep (e : env) (nl np : nat) (h : hstate) (x : tid * apiop) : hstate * list callobs :=
  if h_stop h then (h, []) else
  let (t, o) := x in
  let lc := h_loc h t in
  match api_prog e lc o with
  | None => (h, [mkco t RSkipped [] (snapshot_holds nl (h_w h)) (snapshot_psn np (h_w h))
                      (negb (w_keyf (h_w h) t))])
  | Some p =>
      let (out, w') := run nopw t p (clear_trace (h_w h)) in
      let (lc', rc) := api_fin e lc o out in
      (mkh w' (upd (h_loc h) t lc') (stops rc),
       [mkco t rc (rev (w_trace w')) (snapshot_holds nl w') (snapshot_psn np w') (negb (w_keyf w' t))])
  end.

Fixpoint hrun (e : env) (nl np : nat) (h : hstate) (hist : list (tid * apiop)) : hstate * list callobs :=
  match hist with
  | [] => (h, [])
  | x :: r => let (h1, o1) := hstep e nl np h x in
              let (h2, o2) := hrun e nl np h1 r in
              (h2, o1 ++ o2)
  end.

(* ---------------------------------------------------------------- scenarios *)
Record scen := mks {
  sc_nlocks : nat;
  sc_npids : nat;
  sc_laddr : list nat;                 (* address rank of lock i, as reported by the harness *)
  sc_uaddr : list nat;                 (* address rank of owned unit u *)
  sc_colls : list shape;
  sc_pre : list (lock * rawst);        (* holds of other (ghost) threads present from the start *)
  sc_f1 : list nat;
  sc_fp : list (lock * rop);
  sc_fuel : nat;
  sc_hist : list (tid * apiop)
}.

Definition sc_env (sc : scen) : env :=
  mkenv (mkam (fun l => nth l (sc_laddr sc) 0) (fun u => nth u (sc_uaddr sc) 0)) (sc_colls sc) (sc_fuel sc).

Definition w0 : world :=
  mkw (fun _ => raw_free) (fun _ => false) (fun _ => false) (fun _ => 0) (fun _ => false) 0 [] [] [].

Definition sc_world (sc : scen) : world :=
  let raw := fold_right (fun (x : lock * rawst) f => upd f (fst x) (snd x)) (fun _ => raw_free) (sc_pre sc) in
  mkw raw (fun _ => false) (fun _ => false) (fun _ => 0) (fun _ => false) 0 (sc_f1 sc) (sc_fp sc) [].

Definition model_obs (sc : scen) : list callobs :=
  snd (hrun (sc_env sc) (sc_nlocks sc) (sc_npids sc) (mkh (sc_world sc) (fun _ => tl0) false) (sc_hist sc)).

(* the raw operations a call blocked on / was granted, in order *)
Definition blk_locks (evs : list ev) : list lock :=
  flat_map (fun e => match e with
                     | ERaw _ k l RUnit => if rop_blocking k then [l] else []
                     | _ => []
                     end) evs.

