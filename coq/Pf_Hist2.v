(* Pf_Hist2.v — C02 at the level of API-call-atomic histories: in every state reached by a fault-free history, two threads
   never have live guards over the same lock unless both hold it shared; a guard's leaves are exactly held. *)
From HL Require Import Base Model Shape Algo Api OpsLemmas Lemmas ShapeLemmas ApiLemmas QuietLemmas NoRel Pf_Calls Check Monitors
  Pf_C06 Pf_C13 Pf_Acct Pf_Hist.

Lemma hrun_fst_cons e nl np h x r h1 o1 :
  hstep e nl np h x = (h1, o1) -> fst (hrun e nl np h (x :: r)) = fst (hrun e nl np h1 r).
Proof. intros H. cbn [hrun]. rewrite H. destruct (hrun e nl np h1 r). reflexivity. Qed.

(* the invariant holds in every state a history goes through *)
Lemma qinv_reach sc :
  wf_hist sc ->
  forall hist, (forall x, In x hist -> In x (sc_hist sc)) ->
  forall h ms, qinv sc h ms ->
  let h' := fst (hrun (sc_env sc) (sc_nlocks sc) (sc_npids sc) h hist) in
  h_stop h' = false -> exists ms', qinv sc h' ms'.
Proof.
  intros W. induction hist as [|[t o] r IH]; intros Hsub h ms Q; cbn zeta.
  - intros _. now exists ms.
  - destruct (qstep sc (sc_nlocks sc) (sc_npids sc) h ms t o W Q (Hsub _ (or_introl eq_refl)))
      as [h1 [co [St [_ [_ [_ [_ [Hs' Q']]]]]]]].
    rewrite (hrun_fst_cons _ _ _ h (t, o) r h1 [co] St).
    destruct (stop_code (co_ret co)) eqn:Sc.
    + (* the history was cut: the state stays stopped *)
      intros Hn. exfalso.
      assert (X : forall hs, h_stop h1 = true -> h_stop (fst (hrun (sc_env sc) (sc_nlocks sc) (sc_npids sc) h1 hs)) = true).
      { induction hs as [|y ys IHs]; intros Ht; [exact Ht|]. cbn [hrun]. unfold hstep at 1. rewrite Ht.
        destruct (hrun (sc_env sc) (sc_nlocks sc) (sc_npids sc) h1 ys) eqn:E. cbn [fst] in *. now apply IHs. }
      rewrite (X r Hs') in Hn. discriminate.
    + apply (IH (fun x Hx => Hsub x (or_intror Hx)) h1 _ (Q' eq_refl)).
Qed.

Lemma firstn_In' {A} n (l : list A) x : In x (firstn n l) -> In x l.
Proof.
  revert l. induction n as [|n IH]; intros l H; [destruct H|]. destruct l as [|y r]; [destruct H|].
  cbn [firstn] in H. destruct H as [->|H]; [now left|right; now apply IH].
Qed.

(* mutual exclusion between guards of different threads *)
Theorem guards_exclusive sc :
  wf_hist sc ->
  forall n, let h := fst (hrun (sc_env sc) (sc_nlocks sc) (sc_npids sc) (mkh (sc_world sc) (fun _ => tl0) false)
                               (firstn n (sc_hist sc))) in
  h_stop h = false ->
  forall t1 t2 m1 items1 m2 items2 k1 k2 l, t1 <> t2 ->
    guard (h_loc h t1) = Some (mkg m1 items1) -> guard (h_loc h t2) = Some (mkg m2 items2) ->
    In (k1, l) (gleaves items1) -> In (k2, l) (gleaves items2) ->
    shared k1 m1 = true /\ shared k2 m2 = true.
Proof.
  intros W n h Hs t1 t2 m1 items1 m2 items2 k1 k2 l Hne G1 G2 I1 I2.
  destruct (qinv_reach sc W (firstn n (sc_hist sc)) (fun x Hx => firstn_In' _ _ _ Hx) _ _ (qinv_init sc W) Hs) as [ms Q].
  fold h in Q.
  destruct (qi_guard _ _ _ Q t1 m1 items1 G1) as [_ [_ [H1 _]]].
  destruct (qi_guard _ _ _ Q t2 m2 items2 G2) as [_ [_ [H2 _]]].
  pose proof (held_all_in _ _ _ _ _ _ H1 I1) as X1. pose proof (held_all_in _ _ _ _ _ _ H2 I2) as X2.
  pose proof (qi_wf _ _ _ Q l) as Wf. unfold wf_rawst in Wf.
  unfold held1 in X1, X2. destruct (w_raw (h_w h) l) as [wr rd]. cbn [writer readers] in *.
  destruct (shared k1 m1) eqn:S1, (shared k2 m2) eqn:S2; auto; exfalso.
  - unfold writer_is in X2. cbn [writer] in X2. destruct wr as [u|]; [|discriminate]. rewrite Wf in X1 by discriminate. discriminate.
  - unfold writer_is in X1. cbn [writer] in X1. destruct wr as [u|]; [|discriminate]. rewrite Wf in X2 by discriminate. discriminate.
  - unfold writer_is in X1, X2. cbn [writer] in X1, X2. destruct wr as [u|]; [|discriminate].
    apply Nat.eqb_eq in X1, X2. congruence.
Qed.
