(* QuietLemmas.v — more of what the API does in fault-free worlds: collection-level release, Debug
   formatting, the retrying acquisition, closures, guard drop while unwinding. *)
From HL Require Import Base Model Shape Algo Api OpsLemmas Lemmas ShapeLemmas ApiLemmas.

Section Q.
  Variables (t : tid) (m : mode).

  (* raw_unlock_write / raw_unlock_read of a lock or collection whose leaves the caller holds *)
  Lemma run_raw_unlock am s w :
    quiet w -> acquirable s = true -> NoDup (leaves s) -> held_all t m (kleaves s) (w_raw w) = true ->
    exists w', run nopw t (raw_unlock m (alg_of am s)) w = (ODone VUnit, w') /\
               eff w w' (rel_all t m (kleaves s) (w_raw w)).
  Proof.
    intros Q Ha ND H. pose proof (alg_refs_leaves am s Ha) as Hp. rewrite leaves_kleaves in ND.
    assert (ND' : NoDup (locks_of (rsleaves (alg_refs (alg_of am s))))).
    { eapply Permutation_NoDup; [apply locks_of_perm; symmetry; exact Hp|exact ND]. }
    assert (H' : held_all t m (rsleaves (alg_refs (alg_of am s))) (w_raw w) = true)
      by (rewrite (held_all_perm t m _ _ _ Hp); exact H).
    assert (X : exists w', run nopw t (raw_unlock m (alg_of am s)) w = (ODone VUnit, w') /\
                eff w w' (rel_all t m (rsleaves (alg_refs (alg_of am s))) (w_raw w))).
    { destruct (alg_of am s) as [k l|rs|rs|]; cbn [raw_unlock alg_refs] in *.
      - pose proof (run_rr_unlock t m (RLeaf k l) w Q) as X. rewrite rsleaves_one in *. now apply X.
      - now apply run_unlock_all.
      - now apply run_unlock_all.
      - exists w. split; [reflexivity|apply eff_refl]. }
    destruct X as [w' [R E]]. exists w'. split; [exact R|].
    eapply eff_ext; [exact E|]. intros x. apply rel_all_perm; assumption.
  Qed.
End Q.

(* ---------------------------------------------------------------- Debug formatting *)
Lemma run_fmt_leaf t k l w :
  quiet w ->
  exists n w', run nopw t (fmt_leaf k l) w = (ODone (VNat n), w') /\ eff w w' (w_raw w).
Proof.
  intros Q. unfold fmt_leaf. set (m := match k with KMutex => Ex | KRw => Sh end).
  rewrite run_bind. rewrite (run_leaf_try t m k l w Q).
  destruct (can1 k m (w_raw w l)) eqn:C; cbn [vtrue].
  - set (w1 := after_raw l w (acq1 t k m (w_raw w l)) (ERaw t (try_op k m) l (RBool true))).
    assert (E1 : eff w w1 (upd (w_raw w) l (acq1 t k m (w_raw w l)))) by (apply eff_after_raw; exact I).
    assert (Q1 : quiet w1) by (eapply eff_quiet; eauto).
    (* the read of the payload *)
    set (w2 := emit w1 (EData t false 0 l (w_data w1 l))).
    assert (E2 : eff w1 w2 (w_raw w1)).
    { constructor; simpl; auto. eexists [_]. split; [reflexivity|repeat constructor]. }
    assert (Q2 : quiet w2) by (eapply eff_quiet; eauto).
    assert (H2 : held1 t k m (w_raw w2 l) = true).
    { unfold w2, w1. simpl. rewrite upd_same. apply held_acq1. }
    pose proof (run_leaf_unlock t m k l w2 Q2 H2) as R3.
    eexists. eexists. split.
    + unfold pthen at 1. cbn [run op_ do_op]. fold w2. unfold pthen. rewrite run_bind, R3. reflexivity.
    + eapply eff_ext.
      * eapply eff_trans; [exact E1|]. eapply eff_trans; [exact E2|]. apply eff_after_raw. exact I.
      * intros x. unfold w2, w1. simpl. unfold upd. destruct (Nat.eqb_spec x l); [|reflexivity].
        subst. rewrite Nat.eqb_refl. now apply rel_acq1.
  - eexists. eexists. split; [reflexivity|].
    eapply eff_ext; [apply eff_after_raw; exact I|]. intros x. unfold upd.
    destruct (Nat.eqb_spec x l); [now subst|reflexivity].
Qed.

Lemma run_fmt_list t ls : forall acc w,
  quiet w -> exists n w', run nopw t (fmt_list acc ls) w = (ODone (VNat n), w') /\ eff w w' (w_raw w).
Proof.
  induction ls as [|[k l] r IH]; intros acc w Q.
  - exists acc, w. split; [reflexivity|apply eff_refl].
  - cbn [fmt_list]. destruct (run_fmt_leaf t k l w Q) as [n [w1 [R1 E1]]].
    rewrite run_bind, R1.
    destruct (IH (acc + n) w1 (eff_quiet _ _ _ E1 Q)) as [n' [w2 [R2 E2]]].
    exists n', w2. split; [exact R2|].
    eapply eff_ext; [eapply eff_trans; eauto|]. intros x. apply (eff_raw _ _ _ E1).
Qed.

(* ---------------------------------------------------------------- closures *)
Definition is_cpanic (c : csop) : bool := match c with CPanic => true | _ => false end.

(* events of user code other than the closure-entry marker *)
Definition uev (e : ev) : Prop :=
  match e with ESee _ _ | EData _ _ _ _ _ | EProbe _ _ => True | _ => False end.

Lemma uev_not_raw e : uev e -> not_raw e.
Proof. destruct e; simpl; tauto. Qed.

(* what user code inside a critical section can change: payloads and the trace, nothing else *)
Record frame (w w' : world) : Prop := mkframe {
  fr_raw  : forall x, w_raw w' x = w_raw w x;
  fr_kill : forall x, w_kill w' x = w_kill w x;
  fr_psn  : forall x, w_psn w' x = w_psn w x;
  fr_keyf : forall x, w_keyf w' x = w_keyf w x;
  fr_opc  : w_opc w' = w_opc w;
  fr_f1   : w_f1 w' = w_f1 w;
  fr_fp   : w_fp w' = w_fp w;
  fr_tr   : exists evs, w_trace w' = evs ++ w_trace w /\ Forall uev evs
}.

Lemma frame_refl w : frame w w.
Proof. constructor; auto. exists []. split; [reflexivity|constructor]. Qed.

Lemma frame_trans a b c : frame a b -> frame b c -> frame a c.
Proof.
  intros A B. constructor.
  - intros x. rewrite (fr_raw _ _ B). apply (fr_raw _ _ A).
  - intros x. rewrite (fr_kill _ _ B). apply (fr_kill _ _ A).
  - intros x. rewrite (fr_psn _ _ B). apply (fr_psn _ _ A).
  - intros x. rewrite (fr_keyf _ _ B). apply (fr_keyf _ _ A).
  - rewrite (fr_opc _ _ B). apply (fr_opc _ _ A).
  - rewrite (fr_f1 _ _ B). apply (fr_f1 _ _ A).
  - rewrite (fr_fp _ _ B). apply (fr_fp _ _ A).
  - destruct (fr_tr _ _ A) as [e1 [T1 F1]]. destruct (fr_tr _ _ B) as [e2 [T2 F2]].
    exists (e2 ++ e1). split; [rewrite T2, T1; now rewrite app_assoc|apply Forall_app; now split].
Qed.

Lemma frame_quiet w w' : frame w w' -> quiet w -> quiet w'.
Proof.
  intros F [A [B C]]. repeat split.
  - now rewrite (fr_f1 _ _ F). - now rewrite (fr_fp _ _ F). - intros l. now rewrite (fr_kill _ _ F).
Qed.

Definition user_op (o : op) : Prop :=
  match o with OSeePoison _ | ORead _ _ | OWrite _ _ | OKeyProbe => True | _ => False end.

Lemma do_user_op pw t o w : user_op o -> exists v w', do_op pw t o w = RDone v w' /\ frame w w'.
Proof.
  destruct o; simpl; intros H; try destruct H; eexists; eexists; (split; [reflexivity|]);
    (constructor; simpl; auto; eexists [_]; split; [reflexivity|repeat constructor]).
Qed.

Lemma run_op_user pw t o w : user_op o -> exists v w', run pw t (op_ o) w = (ODone v, w') /\ frame w w'.
Proof.
  intros H. destruct (do_user_op pw t o w H) as [v [w' [D F]]].
  exists v, w'. split; [|exact F]. unfold op_. simpl. rewrite D. reflexivity.
Qed.

Lemma run_see_all_frame t ps w : exists w', run nopw t (see_all ps) w = (ODone VUnit, w') /\ frame w w'.
Proof.
  revert w. induction ps as [|p r IH]; intros w.
  - exists w. split; [reflexivity|apply frame_refl].
  - destruct (run_op_user nopw t (OSeePoison p) w I) as [v [w1 [R1 F1]]].
    destruct (IH w1) as [w2 [R2 F2]]. exists w2. split; [|eapply frame_trans; eauto].
    unfold see_all in *. cbn [map seqs]. rewrite (run_then_done _ _ _ _ _ _ _ R1). exact R2.
Qed.

Lemma run_cs_prog t m items c w :
  exists v w', run nopw t (cs_prog m items c) w = ((if is_cpanic c then OPanic else ODone v), w') /\ frame w w'.
Proof.
  destruct c; cbn [cs_prog is_cpanic].
  - destruct (nth_leaf items pos) as [[k l]|]; [apply (run_op_user nopw t (ORead pos l) w I)|].
    exists VUnit, w. split; [reflexivity|apply frame_refl].
  - destruct m; [exists VUnit, w; split; [reflexivity|apply frame_refl]|].
    destruct (nth_leaf items pos) as [[k l]|]; [apply (run_op_user nopw t (OWrite pos l) w I)|].
    exists VUnit, w. split; [reflexivity|apply frame_refl].
  - exists VUnit, w. split; [reflexivity|apply frame_refl].
  - apply (run_op_user nopw t OKeyProbe w I).
Qed.

Lemma run_cs_list t m items body : forall w,
  exists w', run nopw t (seqs (map (cs_prog m items) body)) w =
             ((if existsb is_cpanic body then OPanic else ODone VUnit), w') /\ frame w w'.
Proof.
  induction body as [|c r IH]; intros w.
  - exists w. split; [reflexivity|apply frame_refl].
  - cbn [map seqs existsb]. destruct (run_cs_prog t m items c w) as [v [w1 [R1 F1]]].
    destruct (is_cpanic c).
    + exists w1. split; [|exact F1]. unfold pthen. simpl. now rewrite R1.
    + destruct (IH w1) as [w2 [R2 F2]]. exists w2. split; [|eapply frame_trans; eauto].
      rewrite (run_then_done _ _ _ _ _ _ _ R1). exact R2.
Qed.

(* the closure is entered once, looks at its argument, performs its accesses; it changes no lock state *)
Lemma run_closure t m items body w :
  exists w', run nopw t (closure m items body) w =
             ((if existsb is_cpanic body then OPanic else ODone VUnit), w') /\
             frame (emit w (EMark t 1)) w'.
Proof.
  unfold closure.
  set (w1 := emit w (EMark t 1)).
  destruct (run_see_all_frame t (gpoisons items) w1) as [w2 [R2 F2]].
  destruct (run_cs_list t m items body w2) as [w3 [R3 F3]].
  exists w3. split.
  - unfold pthen at 1. cbn [run op_ do_op]. fold w1. rewrite (run_then_done _ _ _ _ _ _ _ R2). exact R3.
  - eapply frame_trans; eauto.
Qed.

(* ---------------------------------------------------------------- guard drop while unwinding (user panic) *)
Fixpoint set_psn_all (f : pid -> bool) (ps : list pid) : pid -> bool :=
  match ps with [] => f | p :: r => set_psn_all (upd f p true) r end.

Lemma set_psn_all_mono f ps p : f p = true -> set_psn_all f ps p = true.
Proof.
  revert f. induction ps as [|q r IH]; intros f H; simpl; [exact H|]. apply IH.
  unfold upd. destruct (Nat.eqb p q); [reflexivity|exact H].
Qed.

Lemma set_psn_all_in f ps p : In p ps -> set_psn_all f ps p = true.
Proof.
  revert f. induction ps as [|q r IH]; intros f H; [destruct H|]. simpl.
  destruct H as [->|H]; [apply set_psn_all_mono, upd_same|now apply IH].
Qed.

Lemma set_psn_all_other f ps p : ~ In p ps -> set_psn_all f ps p = f p.
Proof.
  revert f. induction ps as [|q r IH]; intros f H; simpl; [reflexivity|]. simpl in H.
  rewrite IH by tauto. apply upd_other. intros ->. tauto.
Qed.

(* like eff, but Poisonable flags of the dropped wrappers are set *)
Record effp (w w' : world) (f' : St) (psn' : pid -> bool) : Prop := mkeffp {
  ep_raw  : forall x, w_raw w' x = f' x;
  ep_kill : forall x, w_kill w' x = w_kill w x;
  ep_psn  : forall x, w_psn w' x = psn' x;
  ep_f1   : w_f1 w' = w_f1 w;
  ep_fp   : w_fp w' = w_fp w;
  ep_tr   : exists evs, w_trace w' = evs ++ w_trace w /\ Forall clean_ev evs
}.

Lemma effp_quiet w w' f p : effp w w' f p -> quiet w -> quiet w'.
Proof.
  intros E [A [B C]]. repeat split.
  - now rewrite (ep_f1 _ _ _ _ E). - now rewrite (ep_fp _ _ _ _ E). - intros l. now rewrite (ep_kill _ _ _ _ E).
Qed.

Lemma eff_effp w w' f : eff w w' f -> effp w w' f (w_psn w).
Proof. intros E. destruct E. constructor; simpl; auto. Qed.

Lemma effp_trans w w1 w2 f1 p1 f2 p2 : effp w w1 f1 p1 -> effp w1 w2 f2 p2 -> effp w w2 f2 p2.
Proof.
  intros A B. constructor.
  - apply (ep_raw _ _ _ _ B).
  - intros x. rewrite (ep_kill _ _ _ _ B). apply (ep_kill _ _ _ _ A).
  - apply (ep_psn _ _ _ _ B).
  - rewrite (ep_f1 _ _ _ _ B). apply (ep_f1 _ _ _ _ A).
  - rewrite (ep_fp _ _ _ _ B). apply (ep_fp _ _ _ _ A).
  - destruct (ep_tr _ _ _ _ A) as [e1 [T1 F1]]. destruct (ep_tr _ _ _ _ B) as [e2 [T2 F2]].
    exists (e2 ++ e1). split; [rewrite T2, T1; now rewrite app_assoc|apply Forall_app; now split].
Qed.

Lemma effp_ext w w' f g p q : effp w w' f p -> (forall x, f x = g x) -> (forall x, p x = q x) -> effp w w' g q.
Proof.
  intros E H1 H2. destruct E. constructor; auto; intros x; [rewrite <- H1|rewrite <- H2]; auto.
Qed.

Section Unw.
  Variables (t : tid) (m : mode).

  (* PoisonRef::drop sees thread::panicking(): every wrapper in the guard is poisoned, every hold released *)
  Lemma run_drop_items_unw items :
    forall w, quiet w -> NoDup (locks_of (gleaves items)) -> held_all t m (gleaves items) (w_raw w) = true ->
    exists w', run nopw t (drop_items m true items) w = (ODone VUnit, w') /\
               effp w w' (rel_all t m (gleaves items) (w_raw w)) (set_psn_all (w_psn w) (gpoisons items)).
  Proof.
    induction items as [|[k l|p] r IH]; intros w Q ND H.
    - exists w. split; [reflexivity|]. apply eff_effp, eff_refl.
    - cbn [gleaves locks_of map] in ND. inversion ND as [|? ? Hn ND']; subst.
      cbn [gleaves] in H. unfold held_all in H. cbn [forallb fst snd] in H.
      apply andb_true_iff in H. destruct H as [H1 H2].
      pose proof (run_leaf_unlock t m k l w Q H1) as R1.
      set (w1 := after_raw l w (rel1 t k m (w_raw w l)) (ERaw t (rel_op k m) l RUnit)) in *.
      assert (E1 : eff w w1 (upd (w_raw w) l (rel1 t k m (w_raw w l)))) by (apply eff_after_raw; exact I).
      assert (Q1 : quiet w1) by (eapply eff_quiet; eauto).
      assert (H2' : held_all t m (gleaves r) (w_raw w1) = true).
      { unfold held_all. rewrite <- H2. apply forallb_ext_in'. intros [k' l'] Hin. cbn [fst snd].
        rewrite (eff_raw _ _ _ E1). rewrite upd_other; [reflexivity|].
        intros ->. apply Hn. unfold locks_of. now apply (in_map snd) in Hin. }
      destruct (IH w1 Q1 ND' H2') as [w2 [R2 E2]].
      exists w2. split.
      + cbn [drop_items]. rewrite (run_then_done _ _ _ _ _ VUnit w1); [exact R2|].
        apply (run_catch_done _ _ _ _ _ _ _ R1).
      + cbn [gleaves rel_all gpoisons].
        eapply effp_ext; [eapply effp_trans; [apply eff_effp; exact E1|exact E2]| |].
        * apply rel_all_ext. apply (eff_raw _ _ _ E1).
        * intros x. reflexivity.
    - cbn [gleaves gpoisons] in *.
      set (w1 := set_psn w p true).
      assert (Q1 : quiet w1) by (destruct Q as [A [B C]]; repeat split; assumption).
      destruct (IH w1 Q1 ND H) as [w2 [R2 E2]].
      exists w2. split.
      + cbn [drop_items]. unfold pthen at 1. cbn [run op_ do_op]. fold w1. exact R2.
      + destruct E2. constructor; auto.
  Qed.
End Unw.

(* ---------------------------------------------------------------- a panic is never swallowed *)
(* If a call returns normally, no unwind handler ran.  OPoison (and OKill) occur only in handlers and in the
   unwinding drop of APanic, so a call that returns normally leaves every Poisonable flag alone (except
   clear_poison, which clears). *)
Inductive guarded (A : op -> Prop) : prog -> Prop :=
| g_ret v : guarded A (Ret v)
| g_throw : guarded A Throw
| g_abort : guarded A Abort
| g_fuel : guarded A Fuel
| g_op o k : A o -> (forall v, guarded A (k v)) -> guarded A (Op o k)
| g_bind m k : guarded A m -> (forall v, guarded A (k v)) -> guarded A (Bind m k)
| g_catch b h : guarded A b -> guarded A (Catch b h).       (* anything may happen in a handler *)

Lemma guarded_ops (A : op -> Prop) p : ops_in A p -> guarded A p.
Proof. induction 1; constructor; auto. Qed.

Lemma guarded_then (A : op -> Prop) a b : guarded A a -> guarded A b -> guarded A (a ;; b).
Proof. intros. unfold pthen. constructor; auto. Qed.

Section Guarded.
  Variables (pw : lock -> bool) (t : tid).
  Variable A : op -> Prop.
  Variable I : world -> world -> Prop.
  Hypothesis Irefl : forall w, I w w.
  Hypothesis Itrans : forall a b c, I a b -> I b c -> I a c.
  Hypothesis Iop : forall o w, A o ->
    match do_op pw t o w with RDone _ w' => I w w' | _ => True end.

  Lemma run_guarded_done p :
    guarded A p -> forall w v w', run pw t p w = (ODone v, w') -> I w w'.
  Proof.
    induction 1 as [v0| | | |o k Ho Hk IH|m k Hm IHm Hk IHk|b h Hb IHb]; intros w v w' R; simpl in R;
      try (inversion R; subst; apply Irefl); try discriminate.
    - pose proof (Iop o w Ho) as H. destruct (do_op pw t o w) as [v1 w1|w1|w1]; try discriminate.
      eapply Itrans; [exact H|]. eapply IH; eauto.
    - destruct (run pw t m w) as [o1 w1] eqn:R1. destruct o1; try discriminate.
      eapply Itrans; [eapply IHm; eauto|]. eapply IHk; eauto.
    - destruct (run pw t b w) as [o1 w1] eqn:R1. destruct o1; try discriminate.
      + inversion R; subst. eapply IHb; eauto.
      + destruct (run pw t h w1) as [o2 w2]. destruct o2; discriminate.
  Qed.
End Guarded.

(* ---------------------------------------------------------------- scoped calls in quiet worlds *)
Lemma frame_effp w w' : frame w w' -> effp w w' (w_raw w) (w_psn w).
Proof.
  intros F. constructor; try apply F.
  destruct (fr_tr _ _ F) as [evs [T H]]. exists evs. split; [exact T|].
  eapply Forall_impl; [|exact H]. intros e; destruct e; simpl; tauto.
Qed.

Lemma effp_emit w e : clean_ev e -> effp w (emit w e) (w_raw w) (w_psn w).
Proof. intros C. constructor; simpl; auto. exists [e]. split; [reflexivity|repeat constructor; exact C]. Qed.

Lemma run_with_key_panic pw t dp dd body w w' :
  run pw t body w = (OPanic, w') ->
  run pw t (with_key dp dd body) w = (OPanic, if dp then set_keyf w' t false else w').
Proof.
  intros H. unfold with_key. rewrite run_bind. cbn [run]. rewrite H. destruct dp; reflexivity.
Qed.


(* ---------------------------------------------------------------- what follows the closure of a scoped call *)
(* releases, flag writes, the key: no acquisition and no closure-entry marker *)
Definition rop_acq (k : rop) : bool := match k with OLock | OTry | OLockSh | OTrySh => true | _ => false end.
Definition tailop (o : op) : Prop :=
  match o with ORaw k _ => rop_acq k = false | OMark _ | OSeePoison _ => False | _ => True end.
Definition tail_ev (e : ev) : Prop :=
  match e with ERaw _ k _ _ => rop_acq k = false | EMark _ _ | ESee _ _ => False | _ => True end.

Lemma run_tail pw t p w out w' :
  ops_in tailop p -> run pw t p w = (out, w') -> exists evs, w_trace w' = evs ++ w_trace w /\ Forall tail_ev evs.
Proof.
  intros Ho R.
  destruct (run_ops_inv pw t tailop (fun _ => True) tail_ev) with (p := p) (w := w) (out := out) (w' := w') as [_ H]; auto.
  intros o w1 Ao _. destruct o; simpl in Ao |- *; try contradiction;
    try (split; [exact I|exists []; split; [reflexivity|constructor]]);
    try (split; [exact I|eexists [_]; split; [reflexivity|repeat constructor]]).
  destruct (faulty w1 k l); [split; [exact I|eexists [_]; split; [reflexivity|repeat constructor; exact Ao]]|].
  destruct (raw_apply t k (w_raw w1 l) (pw l)); (split; [exact I|eexists [_]; split; [reflexivity|repeat constructor; exact Ao]]).
Qed.

Lemma rr_unlock_tail m r : ops_in tailop (rr_unlock m r).
Proof.
  induction r as [k l|u inner IH] using rawref_ind'; cbn [rr_unlock].
  - unfold leaf_unlock. constructor; apply ops_in_op_; simpl; [destruct k, m; reflexivity|exact I].
  - apply ops_in_seqs. rewrite Forall_forall in *. intros p Hp. apply in_map_iff in Hp. destruct Hp as [x [<- Hx]]. now apply IH.
Qed.

Lemma raw_unlock_tail m a : ops_in tailop (raw_unlock m a).
Proof.
  destruct a as [k l|rs|rs|]; cbn [raw_unlock].
  - apply (rr_unlock_tail m (RLeaf k l)).
  - apply ops_in_seqs_map. intros; apply rr_unlock_tail.
  - apply ops_in_seqs_map. intros; apply rr_unlock_tail.
  - constructor.
Qed.

Lemma trace_set_keyf w t b : w_trace (set_keyf w t b) = w_trace w.
Proof. reflexivity. Qed.

Section ScopedQ.
  Variables (t : tid) (m : mode) (am : addrmap) (s : shape) (lent : bool) (body : list csop).
  Hypothesis Ha : acquirable s = true.
  Hypothesis ND : NoDup (leaves s).

  Let a := alg_of am s.
  Let items := gitems s.
  Let haspanic := existsb is_cpanic body.

  (* the part of a scoped call after the acquisition: closure under the hold, release, key *)
  Lemma run_scoped_rest_quiet acq w v1 w1 f0 :
    quiet w -> run nopw t acq w = (ODone v1, w1) -> effp w w1 (acq_all t m (kleaves s) f0) (w_psn w) ->
    (forall x, w_keyf w1 x = w_keyf w x) ->
    can_all m (kleaves s) f0 = true ->
    exists w',
      run nopw t (scoped_rest m s a lent body acq) w =
        ((if haspanic then OPanic else ODone (VNat 0)), w') /\
      effp w w' f0 (match root_poison s with
                    | Some p => if haspanic then upd (w_psn w) p true else w_psn w
                    | None => w_psn w
                    end) /\
      w_keyf w' t = (if lent then w_keyf w t else false) /\
      (forall x, x <> t -> w_keyf w' x = w_keyf w x) /\
      (* the trace: acquisition, closure-entry marker, user events, then no acquisition and no marker any more *)
      exists w2 evR,
        run nopw t (closure m items body) w1 = ((if haspanic then OPanic else ODone VUnit), w2) /\
        frame (emit w1 (EMark t 1)) w2 /\ w_trace w' = evR ++ w_trace w2 /\ Forall tail_ev evR.
  Proof.
    intros Q Racq Eacq Kacq Can.
    assert (NDk : NoDup (locks_of (kleaves s))) by (rewrite <- leaves_kleaves; exact ND).
    assert (Q1 : quiet w1) by (eapply effp_quiet; eauto).
    (* the closure *)
    destruct (run_closure t m items body w1) as [w2 [Rc Fc]].
    fold haspanic in Rc.
    assert (E2 : effp w w2 (acq_all t m (kleaves s) f0) (w_psn w)).
    { eapply effp_ext.
      - eapply effp_trans; [exact Eacq|]. eapply effp_trans; [apply (effp_emit w1 (EMark t 1)); exact I|].
        apply frame_effp. exact Fc.
      - intros x. cbn [emit w_raw]. apply (ep_raw _ _ _ _ Eacq).
      - intros x. cbn [emit w_psn]. apply (ep_psn _ _ _ _ Eacq). }
    assert (Q2 : quiet w2) by (eapply effp_quiet; eauto).
    assert (K2 : forall x, w_keyf w2 x = w_keyf w x).
    { intros x. rewrite (fr_keyf _ _ Fc). cbn [emit w_keyf]. apply Kacq. }
    assert (H2 : held_all t m (kleaves s) (w_raw w2) = true).
    { rewrite (held_all_ext t m _ _ (acq_all t m (kleaves s) f0)); [now apply held_after_acq|].
      intros x _. apply (ep_raw _ _ _ _ E2). }
    assert (Rel : forall wx, (forall x, w_raw wx x = w_raw w2 x) ->
                  forall x, rel_all t m (kleaves s) (w_raw wx) x = f0 x).
    { intros wx Hx x. rewrite (rel_all_ext t m _ _ (acq_all t m (kleaves s) f0)).
      - now apply rel_acq_all.
      - intros y. rewrite Hx. apply (ep_raw _ _ _ _ E2). }
    unfold scoped_rest. fold a items.
    destruct (root_poison s) as [p|] eqn:Rp.
    - (* Poisonable's own scoped call *)
      destruct haspanic eqn:Hp.
      + (* closure panics: handler poisons and releases, the panic goes on, the key is dropped by unwinding *)
        set (w3 := set_psn w2 p true).
        assert (Q3 : quiet w3) by (destruct Q2 as [A [B C]]; repeat split; assumption).
        assert (H3 : held_all t m (kleaves s) (w_raw w3) = true) by exact H2.
        destruct (run_raw_unlock t m am s w3 Q3 Ha ND H3) as [w4 [R4 E4]]. fold a in R4.
        assert (Rbody : run nopw t (acq ;; Catch (closure m items body) (op_ (OPoison p) ;; raw_unlock m a) ;; raw_unlock m a) w
                        = (OPanic, w4)).
        { rewrite (run_then_done _ _ _ _ _ _ _ Racq). unfold pthen at 1. cbn [run]. rewrite Rc.
          unfold pthen at 1. cbn [run op_ do_op]. fold w3. unfold pthen. cbn [run]. rewrite R4. reflexivity. }
        exists (if negb lent then set_keyf w4 t false else w4). split; [|split; [|split; [|split]]].
        * rewrite run_bind. rewrite (run_with_key_panic _ _ _ _ _ _ _ Rbody). reflexivity.
        * assert (E : effp w w4 f0 (upd (w_psn w) p true)).
          { eapply effp_ext; [eapply effp_trans; [exact E2|]; eapply effp_trans; [|apply eff_effp; exact E4]| |].
            - instantiate (1 := upd (w_psn w2) p true). instantiate (1 := w_raw w2).
              constructor; simpl; auto. exists []. split; [reflexivity|constructor].
            - intros x. apply (Rel w3). reflexivity.
            - intros x. cbn [w3 set_psn w_psn]. unfold upd. destruct (Nat.eqb x p); [reflexivity|apply (ep_psn _ _ _ _ E2)]. }
          destruct lent; cbn [negb]; [exact E|].
          destruct E. constructor; simpl; auto.
        * destruct lent; cbn [negb]; cbn.
          -- rewrite (eff_keyf _ _ _ E4). cbn. apply K2.
          -- apply upd_same.
        * intros x Hx. destruct lent; cbn [negb]; cbn; [|rewrite upd_other by exact Hx];
            rewrite (eff_keyf _ _ _ E4); cbn; apply K2.
        * destruct (run_tail nopw t _ _ _ _ (raw_unlock_tail m a) R4) as [evR [TR FR]]. exists w2, evR.
          split; [exact Rc|]. split; [exact Fc|]. split; [|exact FR]. destruct lent; cbn [negb]; [exact TR|rewrite trace_set_keyf; exact TR].
      + (* closure returns: release, drop(key) *)
        destruct (run_raw_unlock t m am s w2 Q2 Ha ND H2) as [w4 [R4 E4]]. fold a in R4.
        assert (Rbody : run nopw t (acq ;; Catch (closure m items body) (op_ (OPoison p) ;; raw_unlock m a) ;; raw_unlock m a) w
                        = (ODone VUnit, w4)).
        { rewrite (run_then_done _ _ _ _ _ _ _ Racq).
          rewrite (run_then_done _ _ _ _ _ VUnit w2) by (apply (run_catch_done _ _ _ _ _ _ _ Rc)). exact R4. }
        exists (if negb lent then set_keyf w4 t false else w4). split; [|split; [|split; [|split]]].
        * rewrite run_bind. rewrite (run_with_key_done _ _ _ _ _ _ _ _ Rbody). reflexivity.
        * assert (E : effp w w4 f0 (w_psn w)).
          { eapply effp_ext; [eapply effp_trans; [exact E2|apply eff_effp; exact E4]| |].
            - intros x. apply (Rel w2). reflexivity.
            - intros x. apply (ep_psn _ _ _ _ E2). }
          destruct lent; cbn [negb]; [exact E|]. destruct E. constructor; simpl; auto.
        * destruct lent; cbn [negb]; cbn; [|apply upd_same].
          rewrite (eff_keyf _ _ _ E4). apply K2.
        * intros x Hx. destruct lent; cbn [negb]; cbn; [|rewrite upd_other by exact Hx];
            rewrite (eff_keyf _ _ _ E4); apply K2.
        * destruct (run_tail nopw t _ _ _ _ (raw_unlock_tail m a) R4) as [evR [TR FR]]. exists w2, evR.
          split; [exact Rc|]. split; [exact Fc|]. split; [|exact FR]. destruct lent; cbn [negb]; [exact TR|rewrite trace_set_keyf; exact TR].
    - (* lock / collection: utils::scoped_* *)
      destruct (run_raw_unlock t m am s w2 Q2 Ha ND H2) as [w4 [R4 E4]]. fold a in R4.
      assert (E : effp w w4 f0 (w_psn w)).
      { eapply effp_ext; [eapply effp_trans; [exact E2|apply eff_effp; exact E4]| |].
        - intros x. apply (Rel w2). reflexivity.
        - intros x. apply (ep_psn _ _ _ _ E2). }
      destruct haspanic eqn:Hp.
      + assert (Rbody : run nopw t (acq ;; Catch (closure m items body) (raw_unlock m a)) w = (OPanic, w4)).
        { rewrite (run_then_done _ _ _ _ _ _ _ Racq). cbn [run]. rewrite Rc, R4. reflexivity. }
        exists (if negb lent then set_keyf w4 t false else w4). split; [|split; [|split; [|split]]].
        * rewrite run_bind. rewrite (run_with_key_panic _ _ _ _ _ _ _ Rbody). reflexivity.
        * destruct lent; cbn [negb]; [exact E|]. destruct E. constructor; simpl; auto.
        * destruct lent; cbn [negb]; cbn; [|apply upd_same].
          rewrite (eff_keyf _ _ _ E4). apply K2.
        * intros x Hx. destruct lent; cbn [negb]; cbn; [|rewrite upd_other by exact Hx];
            rewrite (eff_keyf _ _ _ E4); apply K2.
        * destruct (run_tail nopw t _ _ _ _ (raw_unlock_tail m a) R4) as [evR [TR FR]]. exists w2, evR.
          split; [exact Rc|]. split; [exact Fc|]. split; [|exact FR]. destruct lent; cbn [negb]; [exact TR|rewrite trace_set_keyf; exact TR].
      + (* release happens after drop(key), on the world where the key flag is already clear *)
        assert (Rbody : run nopw t (acq ;; Catch (closure m items body) (raw_unlock m a)) w = (ODone VUnit, w2)).
        { rewrite (run_then_done _ _ _ _ _ _ _ Racq). apply (run_catch_done _ _ _ _ _ _ _ Rc). }
        set (w3 := if negb lent then set_keyf w2 t false else w2).
        assert (Q3 : quiet w3) by (unfold w3; destruct lent; cbn; [exact Q2|destruct Q2 as [A [B C]]; repeat split; assumption]).
        assert (H3 : held_all t m (kleaves s) (w_raw w3) = true) by (unfold w3; destruct lent; exact H2).
        destruct (run_raw_unlock t m am s w3 Q3 Ha ND H3) as [w5 [R5 E5]]. fold a in R5.
        exists w5. split; [|split; [|split; [|split]]].
        * rewrite run_bind. rewrite (run_with_key_done _ _ _ _ _ _ _ _ Rbody). fold w3.
          rewrite (run_then_done _ _ _ _ _ _ _ R5). reflexivity.
        * eapply effp_ext; [eapply effp_trans; [exact E2|]; eapply effp_trans; [|apply eff_effp; exact E5]| |].
          -- instantiate (1 := w_psn w2). instantiate (1 := w_raw w2).
             unfold w3. destruct lent; cbn; constructor; simpl; auto; exists []; (split; [reflexivity|constructor]).
          -- intros x. apply (Rel w3). unfold w3. destruct lent; reflexivity.
          -- intros x. unfold w3. destruct lent; cbn; apply (ep_psn _ _ _ _ E2).
        * rewrite (eff_keyf _ _ _ E5). unfold w3. destruct lent; cbn; [apply K2|apply upd_same].
        * intros x Hx. rewrite (eff_keyf _ _ _ E5). unfold w3. destruct lent; cbn; [|rewrite upd_other by exact Hx];
            apply K2.
        * destruct (run_tail nopw t _ _ _ _ (raw_unlock_tail m a) R5) as [evR [TR FR]]. exists w2, evR.
          split; [exact Rc|]. split; [exact Fc|]. split; [|exact FR]. rewrite TR. unfold w3. destruct lent; reflexivity.
  Qed.
End ScopedQ.

(* ---------------------------------------------------------------- the retrying acquisition (retry.rs raw_write / raw_read) *)
Lemma firstn_app_len {A} (a b : list A) : firstn (length a) (a ++ b) = a.
Proof. induction a as [|x r IH]; simpl; [now destruct b|now rewrite IH]. Qed.

Lemma nth_app_len (a : list rawref) x b : nthr (length a) (a ++ x :: b) = x.
Proof. unfold nthr. induction a as [|y r IH]; simpl; [reflexivity|exact IH]. Qed.

Section RetryQ.
  Variables (t : tid) (m : mode) (locks : list rawref).
  Hypothesis NDl : NoDup (locks_of (rsleaves locks)).

  (* `again i` when member i is not available: the blocking acquisition of member i waits *)
  Definition again_blocks (again : nat -> prog) (f0 : St) : Prop :=
    forall done x rest w, locks = done ++ x :: rest -> quiet w -> (forall y, w_raw w y = f0 y) ->
      can_all m (rleaves x) f0 = false ->
      exists w', run nopw t (again (length done)) w = (OBlocked, w') /\ blocked_at t m w w' f0 [] (rleaves x).

  (* blocked: what the thread holds is a proper prefix of the leaves of ONE member (nothing, if the member
     is a plain lock) *)
  Definition retry_blocked (w' : world) (f0 : St) : Prop :=
    exists x, In x locks /\ exists w0, blocked_at t m w0 w' f0 [] (rleaves x).

  (* the inner loop with first_index = 0 and i >= 1: try everything after the first member *)
  Lemma run_retry_inner again f0 :
    again_blocks again f0 ->
    forall todo done w locked,
      locks = done ++ todo -> done <> [] -> quiet w ->
      (forall y, w_raw w y = acq_all t m (rsleaves done) f0 y) -> can_all m (rsleaves done) f0 = true ->
      if can_all m (rsleaves todo) f0
      then exists w', run nopw t (retry_inner m locks again 0 (length done) locked todo) w = (ODone VUnit, w') /\
                      eff w w' (acq_all t m (rsleaves locks) f0)
      else exists w', run nopw t (retry_inner m locks again 0 (length done) locked todo) w = (OBlocked, w') /\
                      retry_blocked w' f0.
  Proof.
    intros Hag. induction todo as [|x r IH]; intros done w locked Hl Hd Q Hw Cd.
    - cbn [rsleaves flat_map can_all forallb]. exists w. split; [reflexivity|].
      rewrite app_nil_r in Hl. subst done. eapply eff_ext; [apply eff_refl|exact Hw].
    - cbn [retry_inner].
      assert (Hi : Nat.eqb (length done) 0 = false) by (destruct done; [contradiction|reflexivity]).
      rewrite Hi.
      assert (ND : NoDup (locks_of (rsleaves (done ++ x :: r)))) by (rewrite <- Hl; exact NDl).
      rewrite rsleaves_app, rsleaves_cons, locks_of_app, locks_of_app in ND.
      assert (NDx : NoDup (locks_of (rleaves x))) by (eapply NoDup_app_l, NoDup_app_r; eauto).
      assert (NDd : NoDup (locks_of (rsleaves done))) by (eapply NoDup_app_l; eauto).
      assert (Hfx : forall y, In y (locks_of (rleaves x)) -> w_raw w y = f0 y).
      { intros y Hy. rewrite Hw. apply acq_all_other. intros Hin.
        eapply NoDup_app_disj; [exact ND|exact Hin|]. apply in_or_app. now left. }
      destruct (run_rr_try t m x w Q NDx) as [w1 [R1 E1]].
      rewrite (can_all_ext m (rleaves x) (w_raw w) f0 Hfx) in R1, E1.
      assert (Q1 : quiet w1) by (eapply eff_quiet; eauto).
      rewrite run_bind. rewrite (run_catch_done _ _ _ _ _ _ _ R1).
      rewrite rsleaves_cons, can_all_app.
      destruct (can_all m (rleaves x) f0) eqn:Cx; cbn [vtrue andb].
      + assert (Hl' : locks = (done ++ [x]) ++ r) by (rewrite <- app_assoc; exact Hl).
        assert (Hw1 : forall y, w_raw w1 y = acq_all t m (rsleaves (done ++ [x])) f0 y).
        { intros y. rewrite (eff_raw _ _ _ E1). rewrite rsleaves_app, rsleaves_one, acq_all_app.
          apply acq_all_ext. exact Hw. }
        assert (Cd' : can_all m (rsleaves (done ++ [x])) f0 = true).
        { rewrite rsleaves_app, rsleaves_one, can_all_app, Cd, Cx. reflexivity. }
        assert (Hd' : done ++ [x] <> []) by (destruct done; discriminate).
        specialize (IH (done ++ [x]) w1 (S locked) Hl' Hd' Q1 Hw1 Cd').
        rewrite app_length in IH. cbn [length] in IH. rewrite Nat.add_1_r in IH.
        destruct (can_all m (rsleaves r) f0).
        * destruct IH as [w2 [R2 E2]]. exists w2. split; [exact R2|eapply eff_trans; eauto].
        * exact IH.
      + (* member x refused: release everything taken so far, then wait for x *)
        assert (Hf : firstn (length done) locks = done) by (rewrite Hl; apply firstn_app_len).
        rewrite Hf. cbn [Nat.leb]. 
        assert (Hle : Nat.leb (length done) 0 = false) by (destruct done; [contradiction|reflexivity]).
        rewrite Hle.
        assert (Hh : held_all t m (rsleaves done) (w_raw w1) = true).
        { rewrite (held_all_ext t m _ _ (acq_all t m (rsleaves done) f0)); [now apply held_after_acq|].
          intros y _. rewrite (eff_raw _ _ _ E1). apply Hw. }
        destruct (run_recover t m done w1 Q1 NDd Hh) as [w2 [R2 E2]].
        assert (Q2 : quiet w2) by (eapply eff_quiet; eauto).
        assert (Hw2 : forall y, w_raw w2 y = f0 y).
        { intros y. rewrite (eff_raw _ _ _ E2).
          rewrite (rel_all_ext t m _ _ (acq_all t m (rsleaves done) f0)); [now apply rel_acq_all|].
          intros z. rewrite (eff_raw _ _ _ E1). apply Hw. }
        destruct (Hag done x r w2 Hl Q2 Hw2 Cx) as [w3 [R3 B3]]. exists w3. split.
        * rewrite (run_then_done _ _ _ _ _ VUnit w2); [exact R3|].
          apply run_catch_done. rewrite (run_then_done _ _ _ _ _ _ _ R2). reflexivity.
        * exists x. split; [rewrite Hl; apply in_or_app; right; now left|]. now exists w2.
  Qed.

  Lemma retry_outer_again_blocks f f0 : again_blocks (retry_outer m locks (S f)) f0.
  Proof.
    intros done x rest w Hl Q Hw Cx. cbn [retry_outer].
    assert (N : nthr (length done) locks = x) by (rewrite Hl; apply nth_app_len). rewrite N.
    assert (ND : NoDup (locks_of (rsleaves (done ++ x :: rest)))) by (rewrite <- Hl; exact NDl).
    rewrite rsleaves_app, rsleaves_cons, locks_of_app, locks_of_app in ND.
    assert (NDx : NoDup (locks_of (rleaves x))) by (eapply NoDup_app_l, NoDup_app_r; eauto).
    pose proof (run_rr_lock t m x w Q NDx) as H.
    rewrite (can_all_ext m (rleaves x) (w_raw w) f0 (fun y _ => Hw y)), Cx in H.
    destruct H as [w' [R [pre [rst [Hs [Hne Hb]]]]]]. exists w'. split.
    - apply run_then_blocked. now apply run_catch_blocked.
    - exists pre, rst. split; [exact Hs|]. split; [exact Hne|].
      intros y. rewrite Hb. apply acq_all_ext. exact Hw.
  Qed.

  Lemma run_retry_lock fuel w :
    2 <= fuel -> quiet w ->
    if can_all m (rsleaves locks) (w_raw w)
    then exists w', run nopw t (retry_lock m locks fuel) w = (ODone VUnit, w') /\
                    eff w w' (acq_all t m (rsleaves locks) (w_raw w))
    else exists w', run nopw t (retry_lock m locks fuel) w = (OBlocked, w') /\ retry_blocked w' (w_raw w).
  Proof.
    intros Hf Q. unfold retry_lock. destruct locks as [|x rest] eqn:El.
    - exists w. split; [reflexivity|apply eff_refl].
    - rewrite <- El in *. destruct fuel as [|[|f]]; try lia. cbn [retry_outer].
      assert (N0 : nthr 0 locks = x) by (rewrite El; reflexivity). rewrite N0.
      assert (ND : NoDup (locks_of (rsleaves (x :: rest)))) by (rewrite <- El; exact NDl).
      rewrite rsleaves_cons, locks_of_app in ND.
      pose proof (run_rr_lock t m x w Q (NoDup_app_l _ _ ND)) as H.
      assert (EC : can_all m (rsleaves locks) (w_raw w) = can_all m (rleaves x) (w_raw w) && can_all m (rsleaves rest) (w_raw w))
        by (rewrite El, rsleaves_cons, can_all_app; reflexivity).
      rewrite EC.
      destruct (can_all m (rleaves x) (w_raw w)) eqn:Cx; cbn [andb].
      + destruct H as [w1 [R1 [E1 _]]].
        assert (Q1 : quiet w1) by (eapply eff_quiet; eauto).
        assert (Hin : forall ag, retry_inner m locks ag 0 0 0 locks = retry_inner m locks ag 0 1 0 rest).
        { intros ag. transitivity (retry_inner m locks ag 0 0 0 (x :: rest)); [f_equal; exact El|reflexivity]. }
        pose proof (run_retry_inner (retry_outer m locks (S f)) (w_raw w) (retry_outer_again_blocks f (w_raw w))
                      rest [x] w1 0) as X.
        cbn [length] in X.
        assert (Hw1 : forall y, w_raw w1 y = acq_all t m (rsleaves [x]) (w_raw w) y)
          by (intros y; rewrite rsleaves_one; apply (eff_raw _ _ _ E1)).
        assert (Cd : can_all m (rsleaves [x]) (w_raw w) = true) by (rewrite rsleaves_one; exact Cx).
        specialize (X El ltac:(discriminate) Q1 Hw1 Cd).
        destruct (can_all m (rsleaves rest) (w_raw w)).
        * destruct X as [w2 [R2 E2]]. exists w2. split.
          -- rewrite (run_then_done _ _ _ _ _ VUnit w1) by (apply (run_catch_done _ _ _ _ _ _ _ R1)).
             rewrite Hin. exact R2.
          -- eapply eff_trans; eauto.
        * destruct X as [w2 [R2 B2]]. exists w2. split; [|exact B2].
          rewrite (run_then_done _ _ _ _ _ VUnit w1) by (apply (run_catch_done _ _ _ _ _ _ _ R1)).
          rewrite Hin. exact R2.
      + destruct H as [w1 [R1 B1]]. exists w1. split.
        * apply run_then_blocked. now apply run_catch_blocked.
        * exists x. split; [rewrite El; now left|]. now exists w.
  Qed.
End RetryQ.
