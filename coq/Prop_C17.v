(* Prop_C17.v — C17: non-acquiring operations never wait and never disturb holds. *)
From HL Require Import Base Model Shape Algo Api OpsLemmas Lemmas ShapeLemmas ApiLemmas QuietLemmas Check Monitors Pf_Calls.

(* Debug formatting of any lock / collection, in ANY world (locks held by anyone including the caller,
   faults or not): never waits *)
Theorem C17_fmt_never_waits :
  forall pw t s w out w', run pw t (fmt_list 0 (fmt_leaves s)) w = (out, w') ->
  out <> OBlocked /\ exists evs, w_trace w' = evs ++ w_trace w /\ Forall nb_ev evs.
Proof. exact fmt_never_waits. Qed.

(* ... and leaves the hold state of every lock exactly as it found it *)
Theorem C17_fmt_no_disturbance :
  forall t s w, quiet w ->
  exists n w', run nopw t (fmt_list 0 (fmt_leaves s)) w = (ODone (VNat n), w') /\ eff w w' (w_raw w) /\
               exists evs, w_trace w' = evs ++ w_trace w /\ Forall nb_ev evs.
Proof. exact fmt_quiet. Qed.

(* is_poisoned / clear_poison / key operations / guard data accesses issue no raw lock operation at all *)
Definition norawop (o : op) : Prop := match o with ORaw _ _ => False | _ => True end.

Theorem C17_accessors_no_raw_ops :
  forall e lc o p, api_prog e lc o = Some p ->
  match o with AIsPoisoned _ | AClearPoison _ | AKeyGet | AKeyDrop | AKeyForget | AGuardForget
             | AGuardRead _ | AGuardWrite _ => ops_in norawop p | _ => True end.
Proof.
  intros e lc o p Hp. destruct o; auto; cbn [api_prog] in Hp.
  - inversion Hp; subst. constructor; [exact I|intros; constructor].
  - destruct (haskey lc); inversion Hp; subst. apply ops_in_op_. exact I.
  - destruct (haskey lc); inversion Hp; subst. constructor.
  - destruct (guard lc); inversion Hp; subst. constructor.
  - destruct (guard lc) as [g|]; inversion Hp; subst. simpl.
    destruct (nth_leaf (g_items g) pos) as [[k l]|]; [apply ops_in_op_; exact I|constructor].
  - destruct (guard lc) as [g|]; inversion Hp; subst. simpl.
    destruct (g_mode g); [constructor|]. destruct (nth_leaf (g_items g) pos) as [[k l]|]; [apply ops_in_op_; exact I|constructor].
  - destruct (coll e c) as [[]|]; inversion Hp; subst. constructor; [exact I|intros; constructor].
  - destruct (coll e c) as [[]|]; inversion Hp; subst. apply ops_in_op_. exact I.
Qed.

(* the duplicate check of the constructors is a pure function of the addresses: Shape.try_new_sorting /
   try_new_retry contain no operation at all (they are not programs) *)

Print Assumptions C17_fmt_never_waits.
Print Assumptions C17_fmt_no_disturbance.
Print Assumptions C17_accessors_no_raw_ops.
