(* Prop_C17.v — C17: non-acquiring operations never wait and never disturb holds. *)
From HL Require Import Base Model Shape Algo Api Conc OpsLemmas Lemmas ShapeLemmas ApiLemmas QuietLemmas Check Monitors Pf_Calls Pf_Hist.
From HL Require WpMain.

(* Debug formatting of any lock / collection, in ANY world (locks held by anyone including the caller,
   faults or not): never waits *)
Theorem C17_fmt_never_waits :
  forall pw t s w out w', run pw t (fmt_list 0 (fmt_leaves s)) w = (out, w') ->
  out <> OBlocked /\ exists evs, w_trace w' = evs ++ w_trace w /\ Forall nb_ev evs.
Proof. exact fmt_never_waits. Qed.

(* ... and leaves the hold state of every lock exactly as it found it *)
Theorem C17_fmt_no_disturbance :
  forall t s w, quiet w ->
  exists n w', run nopw t (fmt_list 0 (fmt_leaves s)) w = (ODone (VNat n), w') /\ eff w w' (w_raw w) /\
               exists evs, w_trace w' = evs ++ w_trace w /\ Forall nb_ev evs.
Proof. exact fmt_quiet. Qed.

(* is_poisoned / clear_poison / key operations / guard data accesses issue no raw lock operation at all *)
Definition norawop (o : op) : Prop := match o with ORaw _ _ => False | _ => True end.

Theorem C17_accessors_no_raw_ops :
  forall e lc o p, api_prog e lc o = Some p ->
  match o with AIsPoisoned _ | AClearPoison _ | AKeyGet | AKeyDrop | AKeyForget | AGuardForget
             | AGuardRead _ | AGuardWrite _ => ops_in norawop p | _ => True end.
Proof.
  intros e lc o p Hp. destruct o; auto; cbn [api_prog] in Hp.
  - inversion Hp; subst. constructor; [exact I|intros; constructor].
  - destruct (haskey lc); inversion Hp; subst. apply ops_in_op_. exact I.
  - destruct (haskey lc); inversion Hp; subst. constructor.
  - destruct (guard lc); inversion Hp; subst. constructor.
  - destruct (guard lc) as [g|]; inversion Hp; subst. simpl.
    destruct (nth_leaf (g_items g) pos) as [[k l]|]; [apply ops_in_op_; exact I|constructor].
  - destruct (guard lc) as [g|]; inversion Hp; subst. simpl.
    destruct (g_mode g); [constructor|]. destruct (nth_leaf (g_items g) pos) as [[k l]|]; [apply ops_in_op_; exact I|constructor].
  - destruct (coll e c) as [[]|]; inversion Hp; subst. constructor; [exact I|intros; constructor].
  - destruct (coll e c) as [[]|]; inversion Hp; subst. apply ops_in_op_. exact I.
Qed.

(* the duplicate check of the constructors is a pure function of the addresses: Shape.try_new_sorting /
   try_new_retry contain no operation at all (they are not programs) *)

(* ---------------------------------------------------------------- every history *)
(* For EVERY fault-free history (any number of threads, any interleaving of whole calls, any collections of any
   kind / nesting, any holds of other threads present from the start) the monitor that the check evaluates on the
   implementation's observation holds of the model's observation.  The hypotheses are decidable ([wf_histb]) and
   evaluated on every generated scenario. *)
Theorem C17_every_history :
  forall sc, wf_histb sc = true -> mon_C17 sc (model_obs sc) = true.
Proof. exact C17_all_histories_dec. Qed.
Check C17_every_history : forall sc, wf_histb sc = true -> mon_C17 sc (model_obs sc) = true.

(* the hypotheses are met by a non-trivial scenario: two threads, a boxed collection over a mutex and a poisonable
   rwlock, a retrying collection sharing the mutex, a lock held by a third party from the start, guards, a scoped
   call whose closure panics, a forgotten guard, formatting while holding, a try that fails *)
Definition ex_hist : scen :=
  mks 3 1 [0; 1; 2] []
      [SLeaf KMutex 0; SPoison 0 (SLeaf KRw 1); SBoxed (SSeq [SLeaf KMutex 0; SPoison 0 (SLeaf KRw 1)]);
       SRetry (SSeq [SLeaf KMutex 0; SLeaf KMutex 2])]
      [(2, mkraw (Some 100) [])] [] [] 4
      [(0, AKeyGet); (0, AAcquire 2 Ex FGuard); (0, AFmt 2); (1, AKeyGet); (1, AAcquire 3 Ex FTry); (1, AFmt 3);
       (0, AGuardRead 1); (0, AGuardUnlock); (0, AAcquire 1 Sh (FScoped true [CRead 0; CPanic])); (0, AIsPoisoned 1);
       (0, AAcquire 0 Ex FGuard); (0, AGuardForget); (1, AAcquire 0 Ex FTry); (1, AKeyDrop); (0, AKeyGet)].
Example C17_every_history_nonvacuous :
  wf_histb ex_hist = true /\ length (model_obs ex_hist) = 15 /\ mon_C17 ex_hist (model_obs ex_hist) = true.
Proof. vm_compute. repeat split. Qed.

(* every schedule: an operation that is not an acquisition never waits — a thread inside a key operation, a guard access,
   a drop / unlock, is_poisoned, clear_poison or Debug formatting is never parked on a blocking raw acquisition, in any
   state reached under any schedule of the interleaved model *)
Theorem C17_every_schedule_nonacquiring_never_waits :
  forall b sched t o p k l, WpMain.wfB b = true ->
  let sc := bs_sc b in
  let s := fst (run_sched (bs_wp b) (sc_env sc) (sc_nlocks sc) (binit b) sched) in
  th_cur (get_thr (b_thr s) t) = Some (o, p) -> (forall c m f, o <> AAcquire c m f) ->
  parked (get_thr (b_thr s) t) = Some (ORaw k l) -> rop_blocking k = false.
Proof.
  intros b sched t o p k l W sc s CU NA PK. destruct (rop_blocking k) eqn:BL; [|reflexivity]. exfalso.
  destruct (WpMain.every_schedule_only_blocking_acquisitions_wait b sched t k l W PK BL) as [c' [m' [f' [p' [CU' _]]]]].
  fold sc in CU'. fold s in CU'. rewrite CU in CU'. inversion CU'; subst. now apply (NA c' m' f').
Qed.

Print Assumptions C17_fmt_never_waits.
Print Assumptions C17_fmt_no_disturbance.
Print Assumptions C17_accessors_no_raw_ops.
Print Assumptions C17_every_history.
Print Assumptions C17_every_schedule_nonacquiring_never_waits.
