(* Wp09.v — C09 on every schedule: a thread that waits inside the acquisition of a retrying collection holds nothing of
   that acquisition, except — when the member it waits on is an owned collection — earlier locks of that same member. *)
From HL Require Import Base Model Shape Algo Api Conc Check Monitors BMonitors Lemmas ShapeLemmas Wp WpAlgo WpApi WpMain.

Definition blc09 (sc : scen) (c : nat) (H : list hold) (l : lock) : Prop :=
  if is_retry_root (shape_of sc c) then forall x, In x H -> In (fst x) (unit_of (shape_of sc c) l) else True.

Definition blc09b (sc : scen) (c : nat) (H : list hold) (l : lock) : bool :=
  if is_retry_root (shape_of sc c) then forallb (fun x => memb (fst x) (unit_of (shape_of sc c) l)) H else true.

Lemma blc09b_ok sc c H l : blc09b sc c H l = true -> blc09 sc c H l.
Proof.
  unfold blc09b, blc09. destruct (is_retry_root (shape_of sc c)); [|auto].
  intros E x Hx. rewrite forallb_forall in E. apply memb_In. now apply E.
Qed.

(* no ghost holds, no injected faults, guards dropped, and: inside every member of every retrying collection the locks
   taken before a lock belong to that lock's own unit (true of every shape: a member is a lock or an owned collection) *)
Definition wfB09 (b : bscen) : bool := wfB_gen (blc09b (bs_sc b)) b.

Theorem every_schedule_retry_waits_clean b sched t k l c m f p l' :
  wfB09 b = true ->
  let sc := bs_sc b in
  let s := fst (run_sched (bs_wp b) (sc_env sc) (sc_nlocks sc) (binit b) sched) in
  parked (get_thr (b_thr s) t) = Some (ORaw k l) -> rop_blocking k = true ->
  th_cur (get_thr (b_thr s) t) = Some (AAcquire c m f, p) ->
  is_retry_root (shape_of sc c) = true ->
  holds_b (b_w s) t l' = true -> In l' (unit_of (shape_of sc c) l).
Proof.
  intros W sc s PK BL CU RR HB.
  pose proof (reach_GI_dec (blc09 sc) (blc09b sc) (blc09b_ok sc) false false b sched W) as G.
  change (run_sched_g false false false) with run_sched in G. fold sc in G. fold s in G.
  destruct (GI_blocked b _ _ _ _ _ t k l G PK BL) as [H [K [o [p' [A [CU' B]]]]]].
  rewrite CU in CU'. inversion CU'; subst o p'. cbn [blk_of] in B. destruct (blocking_flavour f); [|contradiction].
  unfold blc09 in B. rewrite RR in B.
  assert (HH : writer_is (w_raw (b_w s) l') t = true \/ memb t (readers (w_raw (b_w s) l')) = true).
  { unfold holds_b in HB. apply orb_true_iff in HB. exact HB. }
  destruct (agree_holds b _ _ _ _ _ A HH) as [x Hx]. apply (B _ Hx).
Qed.
