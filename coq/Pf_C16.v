(* Pf_C16.v — proofs about VTree.v: for every declared structure (any nesting, any sizes) into_inner / get_mut return
   the structure-preserving image of the stored payloads, drop nothing, free each boxed cell exactly once; the drop glue
   drops every payload exactly once. *)
From HL Require Import Base Values VTree.

Lemma vt_ind2 (P : vt -> Prop) :
  (forall v, P (TLock v)) ->
  (forall b t, P t -> P (TPoison b t)) ->
  (forall c ts, Forall P ts -> P (TCont c ts)) ->
  (forall k c t, P t -> P (TColl k c t)) ->
  forall t, P t.
Proof.
  intros HL HP HC HK. fix IH 1. intros [v|b t|c ts|k c t].
  - apply HL.
  - apply HP, IH.
  - apply HC. induction ts as [|t r IHr]; constructor; [apply IH|exact IHr].
  - apply HK, IH.
Qed.

(* ---------------------------------------------------------------- the MaybeUninit loop *)
Lemma slot_write_mid {A} (pre : list A) (x : A) (y : option A) (rest : list (option A)) :
  slot_write (map Some pre ++ y :: rest) (length pre) x = map Some pre ++ Some x :: rest.
Proof. induction pre as [|a pre IH]; simpl; [reflexivity|now rewrite IH]. Qed.

Lemma slots_fill_spec {A} (xs : list A) : forall (pre : list A),
  slots_fill xs (length pre) (map Some pre ++ repeat None (length xs)) = map Some (pre ++ xs).
Proof.
  induction xs as [|x xs IH]; intros pre; simpl.
  - now rewrite !app_nil_r.
  - rewrite slot_write_mid.
    replace (map Some pre ++ Some x :: repeat None (length xs))
       with (map Some (pre ++ [x]) ++ repeat None (length xs)) by (rewrite map_app, <- app_assoc; reflexivity).
    replace (S (length pre)) with (length (pre ++ [x])) by (rewrite app_length; simpl; lia).
    rewrite IH. now rewrite <- app_assoc.
Qed.

Lemma assume_init_all {A} (l : list A) : assume_init (map Some l) = Some l.
Proof. induction l as [|x l IH]; simpl; [reflexivity|now rewrite IH]. Qed.

(* every slot is written exactly once before it is read: the loop is the identity on the element list, for every N *)
Lemma arr_collect_id {A} (xs : list A) : arr_collect xs = Some xs.
Proof.
  unfold arr_collect. pose proof (slots_fill_spec xs []) as H. simpl in H. rewrite H. apply assume_init_all.
Qed.

Lemma collect_spec c xs : collect c xs = Some (ICont (out_cont c) xs).
Proof. destruct c; simpl; try reflexivity. now rewrite arr_collect_id. Qed.

Lemma sequence_map_some {A B} (f : A -> option B) (g : A -> B) (l : list A) :
  Forall (fun a => f a = Some (g a)) l -> sequence (map f l) = Some (map g l).
Proof. induction 1 as [|a l Ha _ IH]; simpl; [reflexivity|now rewrite Ha, IH]. Qed.

(* ---------------------------------------------------------------- values *)
Theorem into_inner_spec t : fst (into_inner t) = Some (spec t).
Proof.
  induction t as [v|b t IH|c ts IH|k c t IH] using vt_ind2; simpl.
  - reflexivity.
  - now rewrite IH.
  - rewrite map_map.
    rewrite (sequence_map_some (fun t => fst (into_inner t)) spec ts IH). apply collect_spec.
  - exact IH.
Qed.

Theorem get_mut_spec t : get_mut t = Some (spec t).
Proof.
  induction t as [v|b t IH|c ts IH|k c t IH] using vt_ind2; simpl.
  - reflexivity.
  - now rewrite IH.
  - rewrite (sequence_map_some get_mut spec ts IH). apply collect_spec.
  - exact IH.
Qed.

Fixpoint tokvals (l : list tok) : list valu :=
  match l with [] => [] | KV v :: r => v :: tokvals r | KRes _ :: r => tokvals r end.

Lemma tokvals_app a b : tokvals (a ++ b) = tokvals a ++ tokvals b.
Proof. induction a as [|[v|e] a IH]; simpl; [reflexivity|now rewrite IH|exact IH]. Qed.

Lemma tokvals_concat l : tokvals (concat l) = concat (map tokvals l).
Proof. induction l as [|a l IH]; simpl; [reflexivity|now rewrite tokvals_app, IH]. Qed.

(* what comes back are exactly the stored payloads, in declared order *)
Theorem flat_spec_vals t : tokvals (flat (spec t)) = vals t.
Proof.
  induction t as [v|b t IH|c ts IH|k c t IH] using vt_ind2; simpl; try assumption; try reflexivity.
  rewrite tokvals_concat, !map_map. f_equal.
  induction IH as [|t r Ht _ IHr]; simpl; [reflexivity|now rewrite Ht, IHr].
Qed.

(* ---------------------------------------------------------------- counting events *)
Lemma count_ev_app e a b : count_ev e (a ++ b) = count_ev e a + count_ev e b.
Proof. unfold count_ev. now rewrite filter_app, app_length. Qed.

Lemma count_ev_concat e l : count_ev e (concat l) = list_sum (map (count_ev e) l).
Proof. induction l as [|a l IH]; simpl; [reflexivity|now rewrite count_ev_app, IH]. Qed.

Lemma count_occ_concat (l : list (list nat)) x :
  count_occ Nat.eq_dec (concat l) x = list_sum (map (fun a => count_occ Nat.eq_dec a x) l).
Proof. induction l as [|a l IH]; simpl; [reflexivity|now rewrite count_occ_app, IH]. Qed.

Lemma list_sum_ext {A} (f g : A -> nat) l : Forall (fun a => f a = g a) l -> list_sum (map f l) = list_sum (map g l).
Proof. induction 1 as [|a l Ha _ IH]; simpl; [reflexivity|now rewrite Ha, IH]. Qed.

Lemma list_sum_zero {A} (f : A -> nat) l : Forall (fun a => f a = 0) l -> list_sum (map f l) = 0.
Proof. induction 1 as [|a l Ha _ IH]; simpl; [reflexivity|now rewrite Ha, IH]. Qed.

Lemma ids_concat ts : map fst (concat (map vals ts)) = concat (map (fun t => map fst (vals t)) ts).
Proof. rewrite concat_map, map_map. reflexivity. Qed.

Definition occ (x : nat) (l : list nat) : nat := count_occ Nat.eq_dec l x.

Lemma eqb_dec_1 i j : (if Nat.eqb i j then 1 else 0) = if Nat.eq_dec j i then 1 else 0.
Proof. destruct (Nat.eqb_spec i j), (Nat.eq_dec j i); congruence. Qed.

(* the drop glue drops every payload of the structure once per occurrence and frees each boxed cell *)
Theorem drop_t_drops t i : count_ev (is_drop i) (drop_t t) = occ i (ids t).
Proof.
  unfold occ, ids.
  induction t as [v|b t IH|c ts IH|k c t IH] using vt_ind2; simpl.
  - unfold count_ev. simpl. destruct (Nat.eqb_spec i (fst v)), (Nat.eq_dec (fst v) i); simpl; congruence.
  - exact IH.
  - rewrite count_ev_concat, ids_concat, count_occ_concat, !map_map. now apply list_sum_ext.
  - rewrite count_ev_app, IH. destruct k; unfold count_ev; simpl; lia.
Qed.

Theorem drop_t_cells t c : count_ev (is_cell c) (drop_t t) = occ c (cells t) /\ count_ev (is_cache c) (drop_t t) = occ c (cells t).
Proof.
  unfold occ.
  induction t as [v|b t IH|k ts IH|k c0 t IH] using vt_ind2; simpl.
  - split; reflexivity.
  - exact IH.
  - rewrite !count_ev_concat, count_occ_concat, !map_map. split; apply list_sum_ext.
    + eapply Forall_impl; [|exact IH]. now intros a [H _].
    + eapply Forall_impl; [|exact IH]. now intros a [_ H].
  - destruct IH as [IH1 IH2]. rewrite !count_ev_app, IH1, IH2, count_occ_app.
    destruct k; unfold count_ev; simpl; try lia.
    destruct (Nat.eqb_spec c c0), (Nat.eq_dec c0 c); simpl; try congruence; lia.
Qed.

(* into_inner runs no destructor, and frees the cell and the cache of every boxed collection on the way exactly once *)
Theorem into_inner_no_drop t i : count_ev (is_drop i) (snd (into_inner t)) = 0.
Proof.
  induction t as [v|b t IH|c ts IH|k c t IH] using vt_ind2; simpl.
  - reflexivity.
  - exact IH.
  - rewrite map_map, count_ev_concat, map_map. now apply list_sum_zero.
  - rewrite count_ev_app, IH. destruct k; reflexivity.
Qed.

Theorem into_inner_cells t c :
  count_ev (is_cell c) (snd (into_inner t)) = occ c (cells t) /\ count_ev (is_cache c) (snd (into_inner t)) = occ c (cells t).
Proof.
  unfold occ.
  induction t as [v|b t IH|k ts IH|k c0 t IH] using vt_ind2; simpl.
  - split; reflexivity.
  - exact IH.
  - rewrite map_map, !count_ev_concat, count_occ_concat, !map_map. split; apply list_sum_ext.
    + eapply Forall_impl; [|exact IH]. now intros a [H _].
    + eapply Forall_impl; [|exact IH]. now intros a [_ H].
  - destruct IH as [IH1 IH2]. rewrite !count_ev_app, IH1, IH2, count_occ_app.
    destruct k; unfold count_ev; simpl; try lia.
    destruct (Nat.eqb_spec c c0), (Nat.eq_dec c0 c); simpl; try congruence; lia.
Qed.

(* dropping what into_inner returned drops every payload once per occurrence and frees nothing *)
Theorem drop_i_spec t i : count_ev (is_drop i) (drop_i (spec t)) = occ i (ids t).
Proof.
  unfold occ, ids.
  induction t as [v|b t IH|c ts IH|k c t IH] using vt_ind2; simpl.
  - unfold count_ev. simpl. destruct (Nat.eqb_spec i (fst v)), (Nat.eq_dec (fst v) i); simpl; congruence.
  - exact IH.
  - rewrite count_ev_concat, ids_concat, count_occ_concat, !map_map. now apply list_sum_ext.
  - exact IH.
Qed.

Lemma drop_i_no_free i c : count_ev (is_cell c) (drop_i i) = 0 /\ count_ev (is_cache c) (drop_i i) = 0.
Proof.
  revert i. fix IH 1. intros [v|e i|k l]; simpl.
  - split; reflexivity.
  - apply IH.
  - rewrite !count_ev_concat, !map_map. split; apply list_sum_zero.
    + induction l as [|a l IHl]; constructor; [apply IH|exact IHl].
    + induction l as [|a l IHl]; constructor; [apply IH|exact IHl].
Qed.

(* ---------------------------------------------------------------- writes *)
Fixpoint bump_vals (p base : nat) (l : list valu) : list valu :=
  match l with [] => [] | v :: r => (if Nat.eqb p base then bump_v v else v) :: bump_vals p (S base) r end.

Lemma bump_vals_app p base a b : bump_vals p base (a ++ b) = bump_vals p base a ++ bump_vals p (base + length a) b.
Proof.
  revert base. induction a as [|v a IH]; intros base; simpl.
  - now rewrite Nat.add_0_r.
  - rewrite IH. now rewrite Nat.add_succ_r.
Qed.

Lemma nleaves_vals t : nleaves t = length (vals t).
Proof.
  induction t as [v|b t IH|c ts IH|k c t IH] using vt_ind2; simpl; try assumption; try reflexivity.
  induction IH as [|t r Ht _ IHr]; simpl; [reflexivity|]. now rewrite app_length, Ht, IHr.
Qed.

(* a write at position p changes the p-th payload of the declared order and nothing else *)
Theorem vals_bump p t : forall base, vals (bump p base t) = bump_vals p base (vals t).
Proof.
  induction t as [v|b t IH|c ts IH|k c t IH] using vt_ind2; intros base; simpl.
  - destruct (Nat.eqb p base); reflexivity.
  - apply IH.
  - revert base. induction IH as [|t r Ht _ IHr]; intros base; simpl; [reflexivity|].
    rewrite bump_vals_app, Ht, <- nleaves_vals. f_equal. apply IHr.
  - apply IH.
Qed.

Lemma bump_vals_ids p base l : map fst (bump_vals p base l) = map fst l.
Proof. revert base. induction l as [|v l IH]; intros base; simpl; [reflexivity|]. rewrite IH. now destruct (Nat.eqb p base). Qed.

Lemma ids_bump p base t : ids (bump p base t) = ids t.
Proof. unfold ids. now rewrite vals_bump, bump_vals_ids. Qed.

Lemma cells_bump p t : forall base, cells (bump p base t) = cells t.
Proof.
  induction t as [v|b t IH|c ts IH|k c t IH] using vt_ind2; intros base; simpl.
  - now destruct (Nat.eqb p base).
  - apply IH.
  - revert base. induction IH as [|t r Ht _ IHr]; intros base; simpl; [reflexivity|]. now rewrite Ht, IHr.
  - now rewrite IH.
Qed.

Lemma ids_bump_at w t : ids (bump_at w t) = ids t.
Proof. destruct w; simpl; [apply ids_bump|reflexivity]. Qed.

Lemma cells_bump_at w t : cells (bump_at w t) = cells t.
Proof. destruct w; simpl; [apply cells_bump|reflexivity]. Qed.

(* ---------------------------------------------------------------- the monitor holds of the model, for every structure *)
Lemma tok_eqb_refl a : tok_eqb a a = true.
Proof. destruct a as [v|e]; simpl; [now rewrite !Nat.eqb_refl|now destruct e]. Qed.

Lemma toks_eqb_refl l : toks_eqb l l = true.
Proof. induction l as [|a l IH]; simpl; [reflexivity|now rewrite tok_eqb_refl, IH]. Qed.

Lemma nodupb_NoDup l : nodupb l = true -> NoDup l.
Proof.
  induction l as [|x l IH]; simpl; intros H; [constructor|].
  apply andb_true_iff in H. destruct H as [H1 H2]. constructor; [|now apply IH].
  intros Hin. apply memb_In in Hin. rewrite Hin in H1. discriminate.
Qed.

Lemma occ_nodup l i : nodupb l = true -> occ i l = if memb i l then 1 else 0.
Proof.
  intros H. apply nodupb_NoDup in H. unfold occ. destruct (memb i l) eqn:E.
  - apply memb_In in E. now apply NoDup_count_occ'.
  - apply count_occ_not_In. intros Hin. apply memb_In in Hin. congruence.
Qed.

Lemma drops_of_nth evs n i : i < n -> nth i (drops_of evs n) 0 = count_ev (is_drop i) evs.
Proof.
  intros H. unfold drops_of.
  set (f := fun j => count_ev (is_drop j) evs).
  rewrite (nth_indep _ 0 (f 0)) by (rewrite map_length, seq_length; lia).
  rewrite (map_nth f). rewrite seq_nth by lia. reflexivity.
Qed.

Lemma drops_of_length evs n : length (drops_of evs n) = n.
Proof. unfold drops_of. now rewrite map_length, seq_length. Qed.

(* ---------------------------------------------------------------- the iterator from which one member is taken *)
Lemma count_boxed_child_ev_drop k c i : count_ev (is_drop i) (into_child_ev k c) = 0.
Proof. destruct k; reflexivity. Qed.

Lemma iter_first_events t toks evs i :
  iter_first t = (Some toks, evs) -> count_ev (is_drop i) evs = occ i (ids t).
Proof.
  unfold iter_first. destruct t as [v|b t'|cc ts|k c t']; try (intros H; cbv beta iota in H; injection H as <- <-; match goal with |- _ = occ _ (ids ?t) => exact (drop_t_drops t _) end).
  destruct t' as [v|b t2|cc ts|k2 c2 t2]; try (intros H; cbv beta iota in H; injection H as <- <-; match goal with |- _ = occ _ (ids ?t) => exact (drop_t_drops t _) end).
  destruct ts as [|m rest]; intros H; cbv beta iota in H.
  - inversion H; subst. rewrite count_boxed_child_ev_drop. reflexivity.
  - pose proof (into_inner_spec m) as Hs. pose proof (into_inner_no_drop m i) as Hn.
    destruct (into_inner m) as [r e]. simpl in Hs, Hn. subst r. simpl in H. inversion H; subst.
    rewrite !count_ev_app, count_boxed_child_ev_drop, Hn, drop_i_spec, count_ev_concat, map_map.
    unfold occ, ids. simpl. rewrite map_app, count_occ_app, ids_concat, count_occ_concat, map_map.
    simpl. f_equal. apply list_sum_ext. apply Forall_forall. intros x _. apply drop_t_drops.
Qed.

Lemma iter_first_returned t toks evs :
  iter_first t = (Some toks, evs) ->
  toks = match t with TColl _ _ (TCont _ (m :: _)) => flat (spec m) | _ => [] end.
Proof.
  unfold iter_first. destruct t as [v|b t'|cc ts|k c t']; try (intros H; cbv beta iota in H; injection H as <- <-; reflexivity).
  destruct t' as [v|b t2|cc ts|k2 c2 t2]; try (intros H; cbv beta iota in H; injection H as <- <-; reflexivity).
  destruct ts as [|m rest]; intros H; cbv beta iota in H; [inversion H; reflexivity|].
  pose proof (into_inner_spec m) as Hs. destruct (into_inner m) as [r e]. simpl in Hs. subst r. simpl in H. inversion H. reflexivity.
Qed.

Lemma iter_first_defined t : exists toks evs, iter_first t = (Some toks, evs).
Proof.
  unfold iter_first. destruct t as [v|b t'|cc ts|k c t']; try (eexists; eexists; reflexivity).
  destruct t' as [v|b t2|cc ts|k2 c2 t2]; try (eexists; eexists; reflexivity).
  destruct ts as [|m rest]; [eexists; eexists; reflexivity|].
  pose proof (into_inner_spec m) as Hs. destruct (into_inner m) as [r e]. simpl in Hs. subst r. simpl. eexists; eexists; reflexivity.
Qed.

Lemma iter_first_cells t toks evs c :
  iter_first t = (Some toks, evs) ->
  count_ev (is_cell c) evs = occ c (cells t) /\ count_ev (is_cache c) evs = occ c (cells t).
Proof.
  unfold iter_first. destruct t as [v|b t'|cc ts|k c0 t']; try (intros H; cbv beta iota in H; injection H as <- <-; match goal with |- _ = occ _ (cells ?t) /\ _ => exact (drop_t_cells t _) end).
  destruct t' as [v|b t2|cc ts|k2 c2 t2]; try (intros H; cbv beta iota in H; injection H as <- <-; match goal with |- _ = occ _ (cells ?t) /\ _ => exact (drop_t_cells t _) end).
  assert (HC : count_ev (is_cell c) (into_child_ev k c0) = occ c (match k with KBoxed => [c0] | _ => [] end) /\
               count_ev (is_cache c) (into_child_ev k c0) = occ c (match k with KBoxed => [c0] | _ => [] end)).
  { unfold occ. destruct k; unfold count_ev; simpl; try (split; reflexivity).
    destruct (Nat.eqb_spec c c0), (Nat.eq_dec c0 c); simpl; try congruence; split; reflexivity. }
  destruct HC as [HC1 HC2].
  destruct ts as [|m rest]; intros H; cbv beta iota in H.
  - inversion H; subst. unfold occ in *. simpl. rewrite count_occ_app. simpl. rewrite HC1, HC2. split; lia.
  - pose proof (into_inner_spec m) as Hs. pose proof (into_inner_cells m c) as [Hc1 Hc2].
    destruct (into_inner m) as [r e]. simpl in Hs, Hc1, Hc2. subst r. simpl in H. inversion H; subst.
    destruct (drop_i_no_free (spec m) c) as [Hz1 Hz2].
    rewrite !count_ev_app, HC1, HC2, Hc1, Hc2, Hz1, Hz2, !count_ev_concat, !map_map.
    unfold occ. simpl. rewrite !count_occ_app, count_occ_concat, map_map.
    assert (E1 : list_sum (map (fun x => count_ev (is_cell c) (drop_t x)) rest) = list_sum (map (fun x => count_occ Nat.eq_dec (cells x) c) rest))
      by (apply list_sum_ext, Forall_forall; intros x _; apply drop_t_cells).
    assert (E2 : list_sum (map (fun x => count_ev (is_cache c) (drop_t x)) rest) = list_sum (map (fun x => count_occ Nat.eq_dec (cells x) c) rest))
      by (apply list_sum_ext, Forall_forall; intros x _; apply drop_t_cells).
    rewrite E1, E2. split; lia.
Qed.

(* the events of a whole path: every payload dropped once per occurrence *)
Lemma tmodel_events p t w toks evs i :
  tmodel p t w = (Some toks, evs) -> count_ev (is_drop i) evs = occ i (ids t).
Proof.
  unfold tmodel. destruct p; intros H;
    try (now apply (iter_first_events _ _ _ _ H));
    try (inversion H; subst; apply drop_t_drops).
  all: try rewrite get_mut_spec in H.
  all: match type of H with context [into_inner ?x] =>
         pose proof (into_inner_spec x) as Hs; pose proof (into_inner_no_drop x i) as Hn;
         destruct (into_inner x) as [r e]; simpl in Hs, Hn; subst r; simpl in H; inversion H; subst;
         rewrite count_ev_app, Hn, drop_i_spec end.
  all: try rewrite ids_bump_at; reflexivity.
Qed.

Lemma tmodel_returned p t w toks evs :
  tmodel p t w = (Some toks, evs) ->
  toks = match p with
         | QDrop | QDropUnw | QTryNewReject => []
         | QLockIntoInner | QTryNewAccept | QIntoIter => expect_vals t None
         | QIntoIterFirst => match t with TColl _ _ (TCont _ (m :: _)) => flat (spec m) | _ => [] end
         | QGetMut => expect_vals t None ++ expect_vals t w
         | _ => expect_vals t w
         end.
Proof.
  unfold tmodel, expect_vals. destruct p; intros H; try (now apply (iter_first_returned _ _ _ H)); try (inversion H; reflexivity).
  all: try rewrite get_mut_spec in H.
  all: match type of H with context [into_inner ?x] =>
         pose proof (into_inner_spec x) as Hs; destruct (into_inner x) as [r e]; simpl in Hs; subst r; simpl in H;
         inversion H; reflexivity end.
Qed.

Theorem tmodel_defined p t w : exists toks evs, tmodel p t w = (Some toks, evs).
Proof.
  unfold tmodel. destruct p; try apply iter_first_defined; try (eexists; eexists; reflexivity).
  all: try rewrite get_mut_spec.
  all: match goal with |- context [into_inner ?x] =>
         pose proof (into_inner_spec x) as Hs; destruct (into_inner x) as [r e]; simpl in Hs; subst r; simpl;
         eexists; eexists; reflexivity end.
Qed.

Theorem mon_T16_model p t w n toks evs :
  wf_vt n t = true -> tmodel p t w = (Some toks, evs) -> mon_T16 p t w toks (drops_of evs n) = true.
Proof.
  intros Hwf H. unfold wf_vt in Hwf. apply andb_true_iff in Hwf. destruct Hwf as [Hwf Hlt].
  apply andb_true_iff in Hwf. destruct Hwf as [Hnd Hcells].
  unfold mon_T16. apply andb_true_iff. split.
  - apply forallb_forall. intros i Hi. apply in_seq in Hi. rewrite drops_of_length in Hi.
    rewrite drops_of_nth by lia. rewrite (tmodel_events _ _ _ _ _ i H). rewrite occ_nodup by exact Hnd.
    apply Nat.eqb_refl.
  - rewrite (tmodel_returned _ _ _ _ _ H). destruct p; try reflexivity; apply toks_eqb_refl.
Qed.

(* every boxed cell (and its lock cache) is freed exactly once on every path, and nothing else is freed *)
Theorem tmodel_cells p t w toks evs c :
  nodupb (cells t) = true -> tmodel p t w = (Some toks, evs) ->
  count_ev (is_cell c) evs = (if memb c (cells t) then 1 else 0) /\
  count_ev (is_cache c) evs = (if memb c (cells t) then 1 else 0).
Proof.
  intros Hnd H. rewrite <- (occ_nodup _ c Hnd).
  unfold tmodel in H. destruct p;
    try (now apply (iter_first_cells _ _ _ _ H));
    try (inversion H; subst; apply drop_t_cells).
  all: try rewrite get_mut_spec in H.
  all: match type of H with context [into_inner ?x] =>
         pose proof (into_inner_spec x) as Hs; pose proof (into_inner_cells x c) as [Hc1 Hc2];
         destruct (into_inner x) as [r e]; simpl in Hs, Hc1, Hc2; subst r; simpl in H; inversion H; subst;
         rewrite !count_ev_app, Hc1, Hc2;
         destruct (drop_i_no_free (spec x) c) as [Hz1 Hz2]; rewrite Hz1, Hz2 end.
  all: try rewrite cells_bump_at; split; lia.
Qed.

(* into_child of a boxed collection followed by the destructor (no mem::forget) would free the cell twice *)
Lemma into_child_without_forget_double_free c t :
  count_ev (is_cell c) (into_child_ev KBoxed c ++ drop_t (TColl KBoxed c t)) >= 2.
Proof.
  rewrite count_ev_app. simpl. rewrite count_ev_app. unfold count_ev at 1 3. simpl. rewrite Nat.eqb_refl. simpl. lia.
Qed.
