(* SortLemmas.v — facts about the stable insertion sort by key, the adjacent-duplicate test used by
   the sorting collections and the HashSet scan used by the retrying collection. *)
From HL Require Import Base ShapeLemmas.

Section S.
  Context {A : Type} (key : A -> nat).

  Definition kle (a b : A) : Prop := key a <= key b.

  Lemma insert_sorted x l : StronglySorted kle l -> StronglySorted kle (insert key x l).
  Proof.
    induction 1 as [|y r Hr IH Hall]; simpl.
    - constructor; constructor.
    - destruct (Nat.leb_spec (key x) (key y)) as [Hle|Hgt].
      + constructor; [constructor; assumption|].
        constructor; [exact Hle|]. eapply Forall_impl; [|exact Hall]. unfold kle. intros a Ha. lia.
      + constructor; [exact IH|].
        rewrite (Forall_forall). intros z Hz.
        apply (Permutation_in _ (insert_perm key x r)) in Hz. destruct Hz as [<-|Hz].
        * unfold kle. lia.
        * rewrite Forall_forall in Hall. now apply Hall.
  Qed.

  Lemma isort_sorted l : StronglySorted kle (isort key l).
  Proof. induction l as [|x r IH]; simpl; [constructor|]. now apply insert_sorted. Qed.

  (* a sorted list has an adjacent pair of equal keys iff its keys are not duplicate-free *)
  Lemma adjdup_false_nodup l :
    StronglySorted kle l -> adjdup key l = false -> NoDup (map key l).
  Proof.
    induction 1 as [|x r Hr IH Hall]; intros Hd; simpl; [constructor|].
    destruct r as [|y r'].
    - constructor; [intros []|constructor].
    - cbn [adjdup] in Hd. apply orb_false_iff in Hd. destruct Hd as [Hxy Hd].
      constructor; [|apply IH; exact Hd].
      apply Nat.eqb_neq in Hxy.
      (* every later key is >= key y > key x *)
      inversion Hr as [|? ? Hr' Hall']; subst. inversion Hall as [|? ? Hxy' Hall'']; subst.
      intros Hin. apply in_map_iff in Hin. destruct Hin as [z [Ez Hz]].
      destruct Hz as [<-|Hz]; [congruence|].
      rewrite Forall_forall in Hall'. specialize (Hall' z Hz). unfold kle in *. lia.
  Qed.

  Lemma adjdup_true_dup l : adjdup key l = true -> ~ NoDup (map key l).
  Proof.
    induction l as [|x r IH]; simpl; [discriminate|]. destruct r as [|y r']; [discriminate|].
    intros Hd ND. apply orb_true_iff in Hd. inversion ND as [|? ? Hn ND']; subst. destruct Hd as [Hxy|Hd].
    - apply Nat.eqb_eq in Hxy. apply Hn. simpl. now left.
    - now apply IH.
  Qed.

  Lemma sorted_adjdup_iff l :
    StronglySorted kle l -> (adjdup key l = true <-> ~ NoDup (map key l)).
  Proof.
    intros Hs. split; [apply adjdup_true_dup|].
    intros Hn. destruct (adjdup key l) eqn:E; [reflexivity|]. exfalso. apply Hn. now apply adjdup_false_nodup.
  Qed.

  (* the HashSet scan *)
  Lemma scandup_false_iff seen l :
    scandup key seen l = false <-> NoDup (map key l) /\ (forall x, In x l -> ~ In (key x) seen).
  Proof.
    revert seen. induction l as [|x r IH]; intros seen; simpl.
    - split; [intros _; split; [constructor|intros ? []]|reflexivity].
    - destruct (memb (key x) seen) eqn:M.
      + split; [discriminate|]. intros [_ H]. exfalso. apply (H x); [now left|]. now apply memb_In.
      + rewrite IH. split.
        * intros [ND H]. split.
          -- constructor; [|exact ND]. intros Hin. apply in_map_iff in Hin. destruct Hin as [z [Ez Hz]].
             apply (H z Hz). left. now symmetry.
          -- intros z [<-|Hz]; [intros Hs; apply memb_In in Hs; congruence|].
             intros Hs. apply (H z Hz). now right.
        * intros [ND H]. inversion ND as [|? ? Hn ND']; subst. split; [exact ND'|].
          intros z Hz [Hs|Hs].
          -- apply Hn. apply in_map_iff. exists z. split; [now symmetry|exact Hz].
          -- apply (H z); [now right|exact Hs].
  Qed.

  Lemma scandup_iff l : scandup key [] l = true <-> ~ NoDup (map key l).
  Proof.
    destruct (scandup key [] l) eqn:E.
    - split; [|reflexivity]. intros _ ND.
      assert (scandup key [] l = false) by (apply scandup_false_iff; split; [exact ND|intros ? ? []]).
      congruence.
    - split; [discriminate|]. intros Hn. exfalso. apply Hn. apply scandup_false_iff in E. apply E.
  Qed.

  (* sorted lists with distinct keys are determined by their elements *)
  Lemma sorted_perm_unique l l' :
    StronglySorted kle l -> StronglySorted kle l' -> NoDup (map key l) -> Permutation l l' -> l = l'.
  Proof.
    revert l'. induction l as [|x r IH]; intros l' Hs Hs' ND Hp.
    - apply Permutation_nil in Hp. now subst.
    - destruct l' as [|y r']; [apply Permutation_sym, Permutation_nil in Hp; discriminate|].
      inversion Hs as [|? ? Hsr Hall]; subst. inversion Hs' as [|? ? Hsr' Hall']; subst.
      inversion ND as [|? ? Hn ND']; subst.
      assert (x = y).
      { assert (Hx : In x (y :: r')) by (eapply Permutation_in; [exact Hp|now left]).
        assert (Hy : In y (x :: r)) by (eapply Permutation_in; [symmetry; exact Hp|now left]).
        destruct Hx as [->|Hx]; [reflexivity|]. destruct Hy as [->|Hy]; [reflexivity|].
        rewrite Forall_forall in Hall, Hall'. specialize (Hall y Hy). specialize (Hall' x Hx).
        unfold kle in *. assert (key x = key y) by lia.
        exfalso. apply Hn. apply in_map_iff. exists y. split; [now symmetry|exact Hy]. }
      subst y. f_equal. apply IH; try assumption. now apply Permutation_cons_inv in Hp.
  Qed.

  (* C08: the sorted order does not depend on the order in which the user listed the locks *)
  Lemma sort_perm_invariant l l' :
    NoDup (map key l) -> Permutation l l' -> isort key l = isort key l'.
  Proof.
    intros ND Hp. apply sorted_perm_unique; try apply isort_sorted.
    - eapply Permutation_NoDup; [|exact ND]. apply Permutation_map. symmetry. apply isort_perm.
    - rewrite (isort_perm key l), (isort_perm key l'). exact Hp.
  Qed.

  Lemma filter_sorted (p : A -> bool) l : StronglySorted kle l -> StronglySorted kle (filter p l).
  Proof.
    induction 1 as [|x r Hr IH Hall]; simpl; [constructor|].
    destruct (p x); [|exact IH]. constructor; [exact IH|].
    rewrite Forall_forall in *. intros z Hz. apply filter_In in Hz. now apply Hall.
  Qed.
End S.
