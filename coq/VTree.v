(* VTree.v — C16 for every declared structure: the values placed in locks, containers, wrappers and collections of any
   nesting, as a tree; into_inner / into_child / get_mut / drop glue written impl by impl as in src/lockable.rs,
   src/collection/{boxed,owned,retry}.rs, src/poisonable/poisonable.rs.  Ownership effects are events: a payload is
   dropped, the heap cell of a boxed collection is freed (Box::from_raw), its cached lock list is freed.
   Definitions only; proofs are in Pf_C16.v. *)
From HL Require Import Base Values.

Inductive cont := CVec | CBox | CArr | CTup.
Inductive ckind := KBoxed | KOwned | KRetry.

(* what the user built; `cell` names the heap cell a boxed collection leaks at construction *)
Inductive vt :=
| TLock (v : valu)                         (* Mutex<T> / RwLock<T> holding payload v = (id, version) *)
| TPoison (psn : bool) (t : vt)            (* Poisonable<L> and its flag *)
| TCont (c : cont) (ts : list vt)          (* Vec / Box<[T]> / [T; N] / tuple *)
| TColl (k : ckind) (cell : nat) (t : vt). (* Boxed / Owned / Retrying collection over L *)

(* what into_inner / get_mut hand back: LockableIntoInner::Inner *)
Inductive it :=
| IVal (v : valu)
| IRes (err : bool) (i : it)               (* PoisonResult<L::Inner> *)
| ICont (c : cont) (l : list it).

Inductive ev :=
| EDrop (id : nat)                         (* a payload's destructor ran *)
| EFreeCell (c : nat)                      (* Box::from_raw(self.data) consumed *)
| EFreeCache (c : nat).                    (* the Vec<&dyn RawLock> of a boxed collection freed *)

(* Vec<T>::Inner = Box<[T::Inner]> *)
Definition out_cont (c : cont) : cont := match c with CVec => CBox | x => x end.

(* ---------------------------------------------------------------- [T; N]: the MaybeUninit loop of lockable.rs:443-474
   let mut guards = MaybeUninit::<[MaybeUninit<_>; N]>::uninit().assume_init();
   for (i, lock) in self.into_iter().enumerate() { guards[i].write(lock.into_inner()); }
   guards.map(|g| g.assume_init())                 — reading a slot that was never written is undefined: None *)
Fixpoint slot_write {A} (s : list (option A)) (i : nat) (x : A) : list (option A) :=
  match s, i with
  | [], _ => []                                  (* out of bounds: the real code panics; never happens for i < N *)
  | _ :: r, 0 => Some x :: r
  | y :: r, S j => y :: slot_write r j x
  end.

Fixpoint slots_fill {A} (xs : list A) (i : nat) (s : list (option A)) : list (option A) :=
  match xs with [] => s | x :: r => slots_fill r (S i) (slot_write s i x) end.

Fixpoint assume_init {A} (s : list (option A)) : option (list A) :=
  match s with
  | [] => Some []
  | None :: _ => None
  | Some x :: r => match assume_init r with Some l => Some (x :: l) | None => None end
  end.

Definition arr_collect {A} (xs : list A) : option (list A) :=
  assume_init (slots_fill xs 0 (repeat None (length xs))).

(* iter().map(..).collect() for Vec / Box<[T]>, field by field for tuples, the slot loop for arrays *)
Definition collect (c : cont) (xs : list it) : option it :=
  match c with
  | CArr => option_map (ICont CArr) (arr_collect xs)
  | _ => Some (ICont (out_cont c) xs)
  end.

Fixpoint sequence {A} (l : list (option A)) : option (list A) :=
  match l with
  | [] => Some []
  | None :: _ => None
  | Some x :: r => match sequence r with Some l' => Some (x :: l') | None => None end
  end.

(* ---------------------------------------------------------------- into_child of a collection
   boxed.rs:207-218: drop_in_place(&mut self.locks); Box::from_raw(self.data); mem::forget(self); boxed.into_inner()
   owned.rs / retry.rs: the field is moved out *)
Definition into_child_ev (k : ckind) (cell : nat) : list ev :=
  match k with KBoxed => [EFreeCache cell; EFreeCell cell] | _ => [] end.

(* ---------------------------------------------------------------- LockableIntoInner::into_inner, impl by impl *)
Fixpoint into_inner (t : vt) : option it * list ev :=
  match t with
  | TLock v => (Some (IVal v), [])                                           (* self.data.into_inner() *)
  | TPoison p t' => let r := into_inner t' in (option_map (IRes p) (fst r), snd r)
  | TCont c ts =>
      let rs := map into_inner ts in
      (match sequence (map fst rs) with Some xs => collect c xs | None => None end, concat (map snd rs))
  | TColl k cell t' =>                                                       (* into_child(), then the child's into_inner *)
      let r := into_inner t' in (fst r, into_child_ev k cell ++ snd r)
  end.

(* LockableGetMut::get_mut: the same impls over &mut; BoxedLockCollection does not implement it *)
Fixpoint gm_ok (t : vt) : bool :=
  match t with
  | TLock _ => true
  | TPoison _ t' => gm_ok t'
  | TCont _ ts => forallb gm_ok ts
  | TColl k _ t' => match k with KBoxed => false | _ => gm_ok t' end
  end.

Fixpoint get_mut (t : vt) : option it :=
  match t with
  | TLock v => Some (IVal v)
  | TPoison p t' => option_map (IRes p) (get_mut t')
  | TCont c ts => match sequence (map get_mut ts) with Some xs => collect c xs | None => None end
  | TColl _ _ t' => get_mut t'
  end.

(* ---------------------------------------------------------------- drop glue
   boxed.rs:148-160: self.locks.clear(); drop(Box::from_raw(self.data)) — the contents are dropped, the cell is freed —
   then the field `locks` is dropped with the struct *)
Fixpoint drop_t (t : vt) : list ev :=
  match t with
  | TLock v => [EDrop (fst v)]
  | TPoison _ t' => drop_t t'
  | TCont _ ts => concat (map drop_t ts)
  | TColl k cell t' => drop_t t' ++ match k with KBoxed => [EFreeCell cell; EFreeCache cell] | _ => [] end
  end.

Fixpoint drop_i (i : it) : list ev :=
  match i with
  | IVal v => [EDrop (fst v)]
  | IRes _ i' => drop_i i'
  | ICont _ l => concat (map drop_i l)
  end.

(* ---------------------------------------------------------------- the simple specification: structure-preserving map *)
Fixpoint spec (t : vt) : it :=
  match t with
  | TLock v => IVal v
  | TPoison p t' => IRes p (spec t')
  | TCont c ts => ICont (out_cont c) (map spec ts)
  | TColl _ _ t' => spec t'
  end.

Fixpoint vals (t : vt) : list valu :=
  match t with
  | TLock v => [v]
  | TPoison _ t' => vals t'
  | TCont _ ts => concat (map vals ts)
  | TColl _ _ t' => vals t'
  end.

Fixpoint cells (t : vt) : list nat :=
  match t with
  | TLock _ => []
  | TPoison _ t' => cells t'
  | TCont _ ts => concat (map cells ts)
  | TColl k c t' => match k with KBoxed => [c] | _ => [] end ++ cells t'
  end.

(* tokens the harness prints for a returned structure: payloads in declared order, Ok / Err of every PoisonResult *)
Inductive tok := KV (v : valu) | KRes (err : bool).

Fixpoint flat (i : it) : list tok :=
  match i with
  | IVal v => [KV v]
  | IRes e i' => KRes e :: flat i'
  | ICont _ l => concat (map flat l)
  end.

(* a write under the lock at the p-th payload (declared order): version + 1 *)
Definition bump_v (v : valu) : valu := (fst v, S (snd v)).

Fixpoint nleaves (t : vt) : nat :=
  match t with
  | TLock _ => 1
  | TPoison _ t' => nleaves t'
  | TCont _ ts => list_sum (map nleaves ts)
  | TColl _ _ t' => nleaves t'
  end.

(* base = number of payloads in front of t in declared order *)
Fixpoint bump (p base : nat) (t : vt) : vt :=
  match t with
  | TLock v => if Nat.eqb p base then TLock (bump_v v) else TLock v
  | TPoison b t' => TPoison b (bump p base t')
  | TCont c ts =>
      TCont c ((fix go (base : nat) (ts : list vt) : list vt :=
                  match ts with
                  | [] => []
                  | t :: r => bump p base t :: go (base + nleaves t) r
                  end) base ts)
  | TColl k c t' => TColl k c (bump p base t')
  end.

Definition bump_at (w : option nat) (t : vt) : vt :=
  match w with Some p => bump p 0 t | None => t end.

(* ---------------------------------------------------------------- paths of the harness (generic in the structure) *)
Inductive tpath :=
| QDrop            (* build, lock once, drop *)
| QDropUnw         (* dropped by unwinding *)
| QIntoInner       (* (write at w under the lock), into_inner, drop what came back *)
| QIntoChild       (* (write at w), root.into_child(), then into_inner of the child *)
| QGetMut          (* get_mut() read, then written at w through it; into_inner: both results are returned *)
| QLockIntoInner   (* guard taken and dropped, then into_inner *)
| QTryNewReject    (* (data, &x, &x) given to a checked constructor: rejected, input dropped *)
| QTryNewAccept    (* (data, &x) accepted, locked, into_child, data taken back *)
| QIntoIter        (* the root collection consumed by its by-value iterator, every member's into_inner *)
| QIntoIterFirst.  (* only the first member is taken out of the iterator; the rest is dropped with it *)

Definition count_ev (e : ev -> bool) (l : list ev) : nat := length (filter e l).
Definition is_drop (i : nat) (e : ev) : bool := match e with EDrop j => Nat.eqb i j | _ => false end.
Definition is_cell (c : nat) (e : ev) : bool := match e with EFreeCell j => Nat.eqb c j | _ => false end.
Definition is_cache (c : nat) (e : ev) : bool := match e with EFreeCache j => Nat.eqb c j | _ => false end.

(* the by-value iterator of a root collection from which only the first member is taken: that member's into_inner, and the
   rest dropped with the iterator *)
Definition iter_first (t : vt) : option (list tok) * list ev :=
  match t with
  | TColl k c (TCont _ (m :: rest)) =>
      let r := into_inner m in
      (option_map flat (fst r),
       into_child_ev k c ++ snd r ++ match fst r with Some i => drop_i i | None => [] end ++ concat (map drop_t rest))
  | TColl k c (TCont _ []) => (Some [], into_child_ev k c)
  | _ => (Some [], drop_t t)
  end.

(* what a path returns to the user (tokens) and every ownership event until all of it has been dropped *)
Definition tmodel (p : tpath) (t : vt) (w : option nat) : option (list tok) * list ev :=
  match p with
  | QDrop | QDropUnw | QTryNewReject => (Some [], drop_t t)
  | QIntoInner | QIntoChild | QLockIntoInner | QTryNewAccept =>
      let t1 := match p with QIntoInner | QIntoChild => bump_at w t | _ => t end in
      let r := into_inner t1 in
      (option_map flat (fst r), snd r ++ match fst r with Some i => drop_i i | None => [] end)
  | QIntoIter =>
      let r := into_inner t in
      (option_map flat (fst r), snd r ++ match fst r with Some i => drop_i i | None => [] end)
  | QIntoIterFirst => iter_first t
  | QGetMut =>
      (* the write goes through the structure get_mut returns; into_inner then sees it *)
      match get_mut t with
      | Some g => let r := into_inner (bump_at w t) in
                  (option_map (fun i => flat g ++ flat i) (fst r), snd r ++ match fst r with Some i => drop_i i | None => [] end)
      | None => (None, [])
      end
  end.

Definition drops_of (evs : list ev) (n : nat) : list nat := map (fun i => count_ev (is_drop i) evs) (seq 0 n).

Definition tok_eqb (a b : tok) : bool :=
  match a, b with
  | KV x, KV y => Nat.eqb (fst x) (fst y) && Nat.eqb (snd x) (snd y)
  | KRes x, KRes y => Bool.eqb x y
  | _, _ => false
  end.

Fixpoint toks_eqb (a b : list tok) : bool :=
  match a, b with
  | [], [] => true
  | x :: r, y :: s => tok_eqb x y && toks_eqb r s
  | _, _ => false
  end.

(* ---------------------------------------------------------------- the monitor: C16 stated on an observation
   (returned tokens, drop counters 0..n-1): every payload of the structure dropped exactly once, nothing else dropped;
   what comes back are exactly the stored payloads at their declared positions, carrying the last write; the Ok / Err
   of every wrapper is its flag *)
Definition ids (t : vt) : list nat := map fst (vals t).

Definition expect_vals (t : vt) (w : option nat) : list tok := flat (spec (bump_at w t)).

Definition mon_T16 (p : tpath) (t : vt) (w : option nat) (returned : list tok) (drops : list nat) : bool :=
  forallb (fun i => Nat.eqb (nth i drops 0) (if memb i (ids t) then 1 else 0)) (seq 0 (length drops)) &&
  match p with
  | QDrop | QDropUnw | QTryNewReject => is_nil returned
  | QLockIntoInner | QTryNewAccept | QIntoIter => toks_eqb returned (expect_vals t None)
  | QIntoIterFirst => toks_eqb returned (match t with TColl _ _ (TCont _ (m :: _)) => flat (spec m) | _ => [] end)
  | QIntoInner | QIntoChild => toks_eqb returned (expect_vals t w)
  | QGetMut => toks_eqb returned (expect_vals t None ++ expect_vals t w)
  end.

(* well-formed descriptor: payload ids distinct and below the counter range, cells distinct *)
Fixpoint nodupb (l : list nat) : bool :=
  match l with [] => true | x :: r => negb (memb x r) && nodupb r end.

Definition wf_vt (n : nat) (t : vt) : bool :=
  nodupb (ids t) && nodupb (cells t) && forallb (fun i => Nat.ltb i n) (ids t).
