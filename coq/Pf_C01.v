(* Pf_C01.v — deadlock freedom: in any Level-B state in which every waiting thread holds only locks of
   lower rank than the one it waits for (and holders are live threads), some thread can move. *)
From HL Require Import Base Model Shape Algo Api Conc OpsLemmas.

Section Universe.
Variable nl : nat.      (* the locks of the scenario are 0 .. nl-1 *)

Definition holds (w : world) (u : tid) (l : lock) : Prop :=
  l < nl /\ (writer_is (w_raw w l) u = true \/ memb u (readers (w_raw w l)) = true).

Definition live (s : bstate) (t : tid) : Prop :=
  t < length (b_thr s) /\ th_over (get_thr (b_thr s) t) = false.

(* t is parked on a blocking acquisition of l that cannot be granted now *)
Definition waits_for (wp : bool) (s : bstate) (t : tid) (l : lock) : Prop :=
  exists k, parked (get_thr (b_thr s) t) = Some (ORaw k l) /\ rop_blocking k = true /\
            grantable wp (b_thr s) (b_w s) t (ORaw k l) = false.

Record stable_state (wp : bool) (rk : lock -> nat) (N : nat) (s : bstate) : Prop := {
  (* the rank discipline (sorted acquisition, retrying collections hold nothing while waiting) *)
  ss_rank : forall t l l', live s t -> waits_for wp s t l -> holds (b_w s) t l' -> rk l' < rk l;
  ss_bound : forall l, rk l < N;
  ss_univ : forall t l, live s t -> waits_for wp s t l -> l < nl;
  (* holds belong to live threads of the system (finished threads and ghosts hold nothing) *)
  ss_holders : forall u l, holds (b_w s) u l -> live s u;
  (* a started live thread is parked on its next scheduling point *)
  ss_parked : forall t, live s t -> th_started (get_thr (b_thr s) t) = true ->
              exists o, parked (get_thr (b_thr s) t) = Some o
}.

Lemma nonblocking_grantable wp ts w t k l :
  rop_blocking k = false -> grantable wp ts w t (ORaw k l) = true.
Proof.
  intros H. unfold grantable. pose proof (raw_apply_nb t k (w_raw w l) (pendw wp ts t l) H) as NB.
  destruct (raw_apply t k (w_raw w l) (pendw wp ts t l)); try reflexivity. contradiction.
Qed.

(* a live thread that cannot move is waiting for some lock *)
Lemma not_enabled_waits wp rk N s t :
  stable_state wp rk N s -> live s t -> enabled wp s t = false -> exists l, waits_for wp s t l.
Proof.
  intros SS [Hlt Hov] He. unfold enabled in He. rewrite Hov in He.
  destruct (th_started (get_thr (b_thr s) t)) eqn:Hst; [|discriminate]. cbn [negb] in He.
  destruct (ss_parked _ _ _ _ SS t (conj Hlt Hov) Hst) as [o Ho]. rewrite Ho in He.
  destruct o; try discriminate He.
  exists l, k. split; [exact Ho|]. split; [|exact He].
  destruct (rop_blocking k) eqn:B; [reflexivity|]. rewrite nonblocking_grantable in He by exact B. discriminate.
Qed.

Lemma memb_exists_in (u : tid) l : l <> [] -> exists x, memb x l = true.
Proof. destruct l as [|x r]; [contradiction|]. intros _. exists x. simpl. now rewrite Nat.eqb_refl. Qed.

Lemma combine_seq_in {A} (ts : list A) (d : A) i x :
  In (i, x) (combine (seq 0 (length ts)) ts) -> i < length ts /\ x = nth i ts d.
Proof.
  assert (G : forall n (l : list A) i x, In (i, x) (combine (seq n (length l)) l) -> n <= i < n + length l /\ x = nth (i - n) l d).
  { intros n l. revert n. induction l as [|a r IH]; intros n j y H; simpl in H; [destruct H|].
    destruct H as [H|H].
    - inversion H; subst. split; [simpl; lia|]. now rewrite Nat.sub_diag.
    - destruct (IH (S n) j y H) as [Hr Hx]. split; [simpl; lia|]. rewrite Hx.
      replace (j - n) with (S (j - S n)) by lia. reflexivity. }
  intros H. destruct (G 0 ts i x H) as [Hr Hx]. split; [lia|]. now rewrite Nat.sub_0_r in Hx.
Qed.

(* why a blocking request is refused: someone holds the lock, or (writer-preferring policy) another
   thread is parked on an exclusive request for it *)
Lemma refused_reason wp s t l :
  l < nl -> waits_for wp s t l ->
  (exists u, holds (b_w s) u l) \/
  (exists x, x <> t /\ x < length (b_thr s) /\ parked (get_thr (b_thr s) x) = Some (ORaw OLock l)).
Proof.
  intros Hnl [k [Hp [Hb Hg]]]. unfold grantable in Hg.
  destruct k; try discriminate Hb; simpl in Hg.
  - (* OLock: not free *)
    left. unfold is_free in Hg. destruct (w_raw (b_w s) l) as [wr rd] eqn:E. simpl in Hg.
    destruct wr as [u|]; simpl in Hg.
    + exists u. split; [exact Hnl|]. left. unfold writer_is. rewrite E. simpl. apply Nat.eqb_refl.
    + destruct rd as [|x r]; [discriminate|]. exists x. split; [exact Hnl|]. right. rewrite E. simpl. now rewrite Nat.eqb_refl.
  - (* OLockSh: a writer holds it, or a writer is waiting *)
    destruct (no_writer (w_raw (b_w s) l)) eqn:Nw; simpl in Hg.
    + destruct (pendw wp (b_thr s) t l) eqn:Pw; [|discriminate]. right.
      unfold pendw in Pw. apply andb_true_iff in Pw. destruct Pw as [_ Pw].
      apply existsb_exists in Pw. destruct Pw as [[i x] [Hin Hx]]. cbn [fst snd] in Hx.
      destruct (combine_seq_in (b_thr s) (mkthr None [] tl0 true true) i x Hin) as [Hi ->].
      fold (get_thr (b_thr s) i) in Hx.
      destruct (parked (get_thr (b_thr s) i)) as [[k' l'| | | | | | | | | | | |]|] eqn:Pi; try discriminate.
      destruct k'; try discriminate. apply andb_true_iff in Hx. destruct Hx as [Hl Hn].
      apply Nat.eqb_eq in Hl. subst l'. apply negb_true_iff, Nat.eqb_neq in Hn.
      exists i. split; [exact Hn|]. split; [exact Hi|exact Pi].
    + left. unfold no_writer in Nw. destruct (w_raw (b_w s) l) as [wr rd] eqn:E. simpl in Nw.
      destruct wr as [u|]; [|discriminate]. exists u. split; [exact Hnl|]. left. unfold writer_is. rewrite E. simpl. apply Nat.eqb_refl.
Qed.

Lemma parked_live s x o : x < length (b_thr s) -> parked (get_thr (b_thr s) x) = Some o -> live s x.
Proof.
  intros Hx Hp. split; [exact Hx|]. unfold parked in Hp.
  destruct (th_over (get_thr (b_thr s) x)); [discriminate|reflexivity].
Qed.

(* the rank argument: follow "waits for a lock held by" upwards; ranks strictly increase and are bounded *)
Theorem waiting_implies_enabled wp rk N s :
  stable_state wp rk N s ->
  forall n t l, live s t -> waits_for wp s t l -> N - rk l <= n -> exists t', enabled wp s t' = true.
Proof.
  intros SS. induction n as [|n IH]; intros t l Hl Hw Hn.
  - pose proof (ss_bound _ _ _ _ SS l). lia.
  - (* someone holds l, directly or behind a waiting writer *)
    assert (Hh : (exists t', enabled wp s t' = true) \/ exists u, holds (b_w s) u l).
    pose proof (ss_univ _ _ _ _ SS t l Hl Hw) as Hnl.
    { destruct (refused_reason wp s t l Hnl Hw) as [H|[x [Hxt [Hxl Hxp]]]]; [now right|].
      destruct (enabled wp s x) eqn:Ex; [left; now exists x|]. right.
      pose proof (parked_live s x _ Hxl Hxp) as Lx.
      (* x is parked on OLock l and cannot move: its request is refused, and an exclusive request is only
         refused because someone holds the lock *)
      assert (Wx : waits_for wp s x l).
      { exists OLock. split; [exact Hxp|]. split; [reflexivity|].
        unfold enabled in Ex. destruct Lx as [_ Ov]. rewrite Ov in Ex.
        destruct (th_started (get_thr (b_thr s) x)) eqn:St; [|discriminate]. cbn [negb] in Ex.
        rewrite Hxp in Ex. exact Ex. }
      destruct Wx as [k [Hp [Hb Hg]]]. rewrite Hxp in Hp. inversion Hp; subst k.
      unfold grantable in Hg. simpl in Hg.
      unfold is_free in Hg. destruct (w_raw (b_w s) l) as [wr rd] eqn:E. simpl in Hg.
      destruct wr as [u|]; simpl in Hg.
      - exists u. split; [exact Hnl|]. left. unfold writer_is. rewrite E. simpl. apply Nat.eqb_refl.
      - destruct rd as [|y r]; [discriminate|]. exists y. split; [exact Hnl|]. right. rewrite E. simpl. now rewrite Nat.eqb_refl. }
    destruct Hh as [H|[u Hu]]; [exact H|].
    pose proof (ss_holders _ _ _ _ SS u l Hu) as Lu.
    destruct (enabled wp s u) eqn:Eu; [now exists u|].
    destruct (not_enabled_waits wp rk N s u SS Lu Eu) as [l' Hw'].
    pose proof (ss_rank _ _ _ _ SS u l' l Lu Hw' Hu) as Hr.
    apply (IH u l' Lu Hw'). pose proof (ss_bound _ _ _ _ SS l'). lia.
Qed.

(* C01 core: a stable state with an unfinished thread is not a deadlock *)
Theorem no_deadlock wp rk N s :
  stable_state wp rk N s -> (exists t, live s t) -> exists t', enabled wp s t' = true.
Proof.
  intros SS [t Lt]. destruct (enabled wp s t) eqn:E; [now exists t|].
  destruct (not_enabled_waits wp rk N s t SS Lt E) as [l Hw].
  apply (waiting_implies_enabled wp rk N s SS (N - rk l) t l Lt Hw). lia.
Qed.

(* in particular no thread waits for a lock it holds itself *)
Theorem no_self_wait wp rk N s t l :
  stable_state wp rk N s -> live s t -> waits_for wp s t l -> ~ holds (b_w s) t l.
Proof. intros SS Lt Hw Hh. pose proof (ss_rank _ _ _ _ SS t l l Lt Hw Hh). lia. Qed.

(* ---------------------------------------------------------------- a decidable test for stable states *)
Lemma live_b_iff s t : live_b s t = true <-> live s t.
Proof.
  unfold live_b, live. rewrite andb_true_iff, Nat.ltb_lt, negb_true_iff. tauto.
Qed.

Lemma waits_b_iff wp s t l : waits_b wp s t = Some l <-> waits_for wp s t l.
Proof.
  unfold waits_b, waits_for. split.
  - destruct (parked (get_thr (b_thr s) t)) as [[k l0| | | | | | | | | | | |]|]; try discriminate.
    destruct (rop_blocking k) eqn:B; [|discriminate]. cbn [andb].
    destruct (grantable wp (b_thr s) (b_w s) t (ORaw k l0)) eqn:G; [discriminate|]. cbn [negb].
    intros H. inversion H; subst. exists k. auto.
  - intros [k [Hp [Hb Hg]]]. rewrite Hp, Hb, Hg. reflexivity.
Qed.

Theorem stable_b_sound wp rk N s :
  (forall l, rk l < N) -> stable_b nl wp rk N s = true -> stable_state wp rk N s.
Proof.
  intros Hb H. unfold stable_b in H. apply andb_true_iff in H. destruct H as [H H3].
  apply andb_true_iff in H. destruct H as [H1 H2].
  rewrite forallb_forall in H1, H2, H3.
  constructor.
  - intros t l l' Lt Hw [Hl' Hh]. pose proof Lt as [Hlt _].
    specialize (H1 t (proj2 (in_seq _ _ _) (conj (Nat.le_0_l _) Hlt))).
    rewrite (proj2 (live_b_iff s t) Lt) in H1. rewrite (proj2 (waits_b_iff wp s t l) Hw) in H1.
    apply andb_true_iff in H1. destruct H1 as [_ H1]. rewrite forallb_forall in H1.
    specialize (H1 l' (proj2 (in_seq _ _ _) (conj (Nat.le_0_l _) Hl'))).
    unfold holds_b in H1. assert (E : writer_is (w_raw (b_w s) l') t || memb t (readers (w_raw (b_w s) l')) = true)
      by (destruct Hh as [->| ->]; [reflexivity|apply orb_true_r]).
    rewrite E in H1. now apply Nat.ltb_lt.
  - exact Hb.
  - intros t l Lt Hw. pose proof Lt as [Hlt _].
    specialize (H1 t (proj2 (in_seq _ _ _) (conj (Nat.le_0_l _) Hlt))).
    rewrite (proj2 (live_b_iff s t) Lt) in H1. rewrite (proj2 (waits_b_iff wp s t l) Hw) in H1.
    apply andb_true_iff in H1. destruct H1 as [H1 _]. now apply Nat.ltb_lt.
  - intros u l [Hl Hh]. specialize (H2 l (proj2 (in_seq _ _ _) (conj (Nat.le_0_l _) Hl))).
    apply andb_true_iff in H2. destruct H2 as [Hw Hr]. apply live_b_iff.
    destruct Hh as [Hh|Hh].
    + unfold writer_is in Hh. destruct (writer (w_raw (b_w s) l)) as [x|]; [|discriminate].
      apply Nat.eqb_eq in Hh. now subst.
    + rewrite forallb_forall in Hr. apply Hr. now apply memb_In.
  - intros t Lt St. pose proof Lt as [Hlt _].
    specialize (H3 t (proj2 (in_seq _ _ _) (conj (Nat.le_0_l _) Hlt))).
    rewrite (proj2 (live_b_iff s t) Lt), St in H3. cbn [andb] in H3.
    destruct (parked (get_thr (b_thr s) t)) as [o|]; [now exists o|discriminate].
Qed.

(* every state that passes the test and still has a live thread has an enabled thread *)
Corollary stable_b_no_deadlock wp rk N s :
  (forall l, rk l < N) -> stable_b nl wp rk N s = true -> (exists t, live s t) -> exists t', enabled wp s t' = true.
Proof. intros Hb H. apply (no_deadlock wp rk N s). now apply stable_b_sound. Qed.
End Universe.

(* ---------------------------------------------------------------- the rank function of a scenario is bounded *)
Lemma nth_le_list_max l i : nth i l 0 <= list_max l.
Proof.
  revert i. induction l as [|x r IH]; intros i; destruct i; simpl; try lia.
  specialize (IH i). lia.
Qed.

Lemma list_max_app_l a b : list_max a <= list_max (a ++ b).
Proof. rewrite list_max_app. lia. Qed.
Lemma list_max_app_r a b : list_max b <= list_max (a ++ b).
Proof. rewrite list_max_app. lia. Qed.

Theorem rk_bound sc l : rk_of sc l < bound_of sc.
Proof.
  unfold rk_of, bound_of.
  match goal with |- context [fold_left ?f ?l ?a] => destruct (fold_left f l a) as [[u ls]|] end.
  - cbn [sc_env e_am uaddr]. pose proof (nth_le_list_max (sc_uaddr sc) u).
    pose proof (list_max_app_r (sc_laddr sc) (sc_uaddr sc)).
    pose proof (Nat.le_min_r (index_of l ls + 1) 15). lia.
  - cbn [sc_env e_am laddr]. pose proof (nth_le_list_max (sc_laddr sc) l).
    pose proof (list_max_app_l (sc_laddr sc) (sc_uaddr sc)). lia.
Qed.

(* what the check evaluates on every state the model goes through implies: none of them is a deadlock *)
Theorem model_state_not_deadlocked b s :
  let sc := bs_sc b in
  stable_b (sc_nlocks sc) (bs_wp b) (rk_of sc) (bound_of sc) s = true ->
  (exists t, live s t) -> exists t', enabled (bs_wp b) s t' = true.
Proof.
  intros sc H. apply (stable_b_no_deadlock (sc_nlocks sc) (bs_wp b) (rk_of sc) (bound_of sc) s); [|exact H].
  intros l. apply rk_bound.
Qed.
