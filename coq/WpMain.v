(* WpMain.v — deadlock freedom of the interleaved model for every schedule: the state reached by any schedule from the
   initial state of a well-formed scenario is a stable state (Pf_C01.stable_state), hence never a deadlock. *)
From HL Require Import Base Model Shape Algo Api Conc OpsLemmas Lemmas ShapeLemmas Wp WpAlgo WpApi Pf_C01.

(* ---------------------------------------------------------------- programs that drop their guards *)
(* g: a guard may be live.  No guard is forgotten, and none is live when the thread's program ends. *)
(* [np]: additionally, user code never panics (no `panic!` op, no panicking closure): the setting of "executions without
   panics never poison" (C10) *)
Definition nopanic_cb (body : list csop) : bool :=
  negb (existsb (fun o => match o with CPanic => true | _ => false end) body).
Definition nopanicb (o : apiop) : bool :=
  match o with
  | APanic => false
  | AAcquire _ _ (FScoped _ body | FScopedTry _ body) => nopanic_cb body
  | _ => true
  end.

Lemma nopanicb_ok o : nopanicb o = true -> nopanic_op o.
Proof.
  destruct o as [| | |c m f| | | | | | | | |]; cbn [nopanicb nopanic_op]; try (intros; exact I); try discriminate.
  destruct f as [| |lent body|lent body]; try (intros; exact I); unfold nopanic_cb, no_cpanic; intros E X;
    apply negb_true_iff in E; assert (Y : existsb (fun o => match o with CPanic => true | _ => false end) body = true)
      by (apply existsb_exists; exists CPanic; split; [exact X|reflexivity]); congruence.
Qed.

Fixpoint closedz (np g : bool) (ops : list apiop) : bool :=
  match ops with
  | [] => negb g
  | o :: r =>
      (negb np || nopanicb o) &&
      match o with
      | AGuardForget => false
      | AAcquire _ _ (FGuard | FTry) => closedz np true r
      | AGuardDrop | AGuardUnlock | APanic => closedz np false r
      | _ => closedz np g r
      end
  end.
Notation closed := (closedz false).

Definition gflag (lc : tlocal) : bool := match guard lc with Some _ => true | None => false end.

Lemma closed_mono np ops : closedz np true ops = true -> closedz np false ops = true.
Proof.
  induction ops as [|o r IH]; cbn [closedz]; [discriminate|]. intros C. apply andb_true_iff in C. destruct C as [C0 C].
  rewrite C0. cbn [andb]. revert C.
  destruct o as [| | |c m f| | | | | | | | |]; try exact IH; try (intros X; exact X).
  destruct f; try exact IH; intros X; exact X.
Qed.

Lemma closed_weaken np g ops : closedz np true ops = true -> closedz np g ops = true.
Proof. destruct g; [auto|apply closed_mono]. Qed.

Lemma closed_not_forget np g o r : closedz np g (o :: r) = true -> o <> AGuardForget.
Proof. intros C E. subst o. cbn [closedz] in C. apply andb_true_iff in C. destruct C as [_ C]. discriminate. Qed.

Lemma closed_head np g o r : closedz np g (o :: r) = true -> np = true -> nopanic_op o.
Proof.
  intros C E. subst np. cbn [closedz negb orb] in C. apply andb_true_iff in C. destruct C as [C _]. now apply nopanicb_ok.
Qed.

Lemma closed_skip np e lc o r : api_prog e lc o = None -> closedz np (gflag lc) (o :: r) = true -> closedz np (gflag lc) r = true.
Proof.
  intros E C. cbn [closedz] in C. apply andb_true_iff in C. destruct C as [_ C]. unfold gflag in *.
  destruct o as [| | |c m f| | | | | | | | |]; cbn [api_prog] in E; try exact C; try discriminate C.
  - destruct f; try exact C; now apply closed_weaken.
  - destruct (guard lc); [discriminate E|exact C].
  - destruct (guard lc); [discriminate E|exact C].
  - destruct (guard lc); discriminate E.
Qed.

Lemma closed_step np e lc o r out :
  closedz np (gflag lc) (o :: r) = true -> closedz np (gflag (fst (api_fin e lc o out))) r = true.
Proof.
  intros C. cbn [closedz] in C. apply andb_true_iff in C. destruct C as [_ C]. unfold gflag in *.
  destruct o as [| | |c m f| | | |pos|pos| |c|c|c]; try discriminate C; try destruct f;
    destruct out as [[|bb|[|[|[|n]]]]| | | |]; cbn [api_fin fst guard]; destruct (guard lc);
    first [exact C | apply closed_mono; exact C].
Qed.

(* ---------------------------------------------------------------- lists of threads *)
Lemma set_nth_length {A} (l : list A) n x : length (set_nth l n x) = length l.
Proof. revert n. induction l as [|y r IH]; intros [|n]; cbn [set_nth length]; auto. Qed.

Lemma get_set_same ts t x : t < length ts -> get_thr (set_nth ts t x) t = x.
Proof.
  unfold get_thr. revert t. induction ts as [|y r IH]; intros [|t] L; cbn [length] in L; try lia; cbn [set_nth nth]; [reflexivity|].
  apply IH. lia.
Qed.

Lemma get_set_other ts t u x : u <> t -> get_thr (set_nth ts t x) u = get_thr ts u.
Proof.
  unfold get_thr. revert t u. induction ts as [|y r IH]; intros [|t] [|u] N; cbn [set_nth nth]; try reflexivity; try lia.
  apply IH. lia.
Qed.

Lemma nth_map_lt {A B} (f : A -> B) (l : list A) t d d' : t < length l -> nth t (map f l) d = f (nth t l d').
Proof. revert t. induction l as [|x r IH]; intros [|t] L; cbn [length] in L; try lia; cbn [map nth]; [reflexivity|]. apply IH. lia. Qed.

Lemma agree_clear t w H K : agree t w H K -> agree t (clear_trace w) H K.
Proof. apply agree_ext; intros; reflexivity. Qed.
Lemma clean_clear pz w : clean pz w -> clean pz (clear_trace w).
Proof. apply clean_ext; intros; reflexivity. Qed.

(* with ra = false the flag lr is never read *)
Lemma adv_lr_irrelevant lr t p : forall w, adv false lr t p w = adv false false t p w.
Proof.
  induction p as [v| | | |o k IH|m IHm k IHk|b IHb h IHh]; intros w; cbn [adv]; try reflexivity.
  - unfold stops_here. cbn [andb]. destruct (is_sched o); cbn [andb negb]; [reflexivity|].
    destruct (do_op nopw t o w); try reflexivity. apply IH.
  - rewrite IHm. destruct (adv false false t m w) as [out w'|m' w']; [|reflexivity]. destruct out; try reflexivity. apply IHk.
  - rewrite IHb. destruct (adv false false t b w) as [out w'|b' w']; [|reflexivity]. destruct out; try reflexivity.
    rewrite IHh. reflexivity.
Qed.

Lemma drain_calls_lr_irrelevant lr pb e t : forall rest loc w evs,
  drain_calls false lr pb e t loc rest w evs = drain_calls false false pb e t loc rest w evs.
Proof.
  induction rest as [|o r IH]; intros loc w evs; cbn [drain_calls]; [reflexivity|].
  destruct (api_prog e loc o) as [p|]; [|apply IH]. rewrite adv_lr_irrelevant.
  destruct (adv false false t p (clear_trace w)) as [out w'|p' w']; [|reflexivity].
  destruct pb; [reflexivity|].
  destruct (api_fin e loc o out) as [lc' rc]. destruct (stops rc); [reflexivity|]. apply IH.
Qed.

Section Main.
Variable b : bscen.
Let sc := bs_sc b.
Let e := sc_env sc.
Let nl := sc_nlocks sc.
Let rk := rk_of sc.
Let wpol := bs_wp b.
(* the blocking condition, per running call (C01: the rank discipline; C09: see the end of this file) *)
Variable blk : apiop -> list hold -> lock -> Prop.
(* the scheduling mode "a thread pauses after every release" (Conc.turn_g) *)
Variable yr : bool.
(* ... and "a thread whose call has run to its end pauses before the call returns" (Conc.drain_calls / settle) *)
Variable pb : bool.
(* whether poison flags may be set at all (Wp.v), and the matching side condition on the threads' programs *)
Variable pz : Prop.
Variable npb : bool.
Hypothesis PZ : npb = false -> pz.

Hypothesis EO : env_ok blk e.

Definition Qr_of (lc : tlocal) (o : apiop) : val -> post := fun v H K => TBfin (api_fin e lc o (ODone v)) H K.
Definition Qt_of (lc : tlocal) (o : apiop) : post := fun H K => TBfin (api_fin e lc o OPanic) H K.
Definition QF_of (lc : tlocal) (o : apiop) : post := fun H K => TBfin (api_fin e lc o OFuel) H K.

Lemma out_post_fin lc o out H K :
  out_post (Qr_of lc o) (Qt_of lc o) (QF_of lc o) out H K -> TBfin (api_fin e lc o out) H K.
Proof. destruct out; cbn [out_post]; unfold Qr_of, Qt_of, QF_of; tauto. Qed.

Lemma wp_term_of bl lc o out H K :
  out_post (Qr_of lc o) (Qt_of lc o) (QF_of lc o) out H K ->
  Wp.wp bl pz (Op bpause_op (fun _ => term_of out)) H K (Qr_of lc o) (Qt_of lc o) (QF_of lc o).
Proof. destruct out; cbn [out_post term_of Wp.wp bpause_op]; tauto. Qed.

(* what is known of thread t *)
Definition TI (t : tid) (th : thr) (w : world) : Prop :=
  exists H K, agree t w H K /\
  if th_over th then H = []
  else match th_cur th with
       | None => th_started th = false /\ TB (th_loc th) H K /\ closedz npb (gflag (th_loc th)) (th_rest th) = true
       | Some (o, p) => th_started th = true /\ closedz npb (gflag (th_loc th)) (o :: th_rest th) = true /\
                        (exists op, nextop p = NOp op) /\
                        Wp.wp (blk o) pz p H K (Qr_of (th_loc th) o) (Qt_of (th_loc th) o) (QF_of (th_loc th) o)
       end.

Definition frame (t : tid) (w w' : world) : Prop :=
  forall u Hu Ku, u <> t -> agree u w Hu Ku -> agree u w' Hu Ku.

Lemma frame_trans t w1 w2 w3 : frame t w1 w2 -> frame t w2 w3 -> frame t w1 w3.
Proof. intros A B u Hu Ku N X. apply B; [exact N|]. apply A; assumption. Qed.

Lemma drain_calls_inv t : forall rest loc w evs H K th' w' evs',
  agree t w H K -> clean pz w -> TB loc H K -> closedz npb (gflag loc) rest = true ->
  drain_calls false false pb e t loc rest w evs = (th', w', evs') ->
  TI t th' w' /\ clean pz w' /\ frame t w w'.
Proof.
  induction rest as [|o r IH]; intros loc w evs H K th' w' evs' A C T CL E; cbn [drain_calls] in E.
  - inversion E; subst. split; [|split; [exact C|intros u Hu Ku _ X; exact X]].
    exists H, K. split; [exact A|]. cbn [th_over].
    cbn [closed] in CL. unfold gflag in CL. unfold TB in T. destruct (guard loc); [discriminate|]. exact (proj1 T).
  - destruct (api_prog e loc o) as [p|] eqn:EP.
    2:{ eapply IH; [exact A|exact C|exact T| |exact E]. eapply closed_skip; eassumption. }
    assert (ZN : pz \/ nopanic_op o).
    { destruct npb eqn:NB; [right; eapply closed_head; [exact CL|reflexivity]|left; now apply PZ]. }
    pose proof (api_wp blk pz e loc o p H K EO T (closed_not_forget _ _ _ _ CL) EP ZN) as W.
    pose proof (wp_adv (blk o) pz t p (clear_trace w) H K _ _ _ W (agree_clear _ _ _ _ A) (clean_clear _ _ C)) as D.
    assert (FR : forall out w1, adv false false t p (clear_trace w) = AFin out w1 \/ (exists p1, adv false false t p (clear_trace w) = APark p1 w1) -> frame t w w1).
    { intros out w1 X u Hu Ku N Y. pose proof (adv_other t u p (clear_trace w) Hu Ku N (agree_clear _ _ _ _ Y)) as Z.
      destruct X as [X|[p1 X]]; rewrite X in Z; exact Z. }
    destruct (adv false false t p (clear_trace w)) as [out w1|p1 w1] eqn:EA.
    + destruct D as [H1 [K1 [A1 [C1 P1]]]].
      destruct pb.
      { (* the call has run to its end: the thread pauses before it returns *)
        inversion E; subst. split; [|split; [exact C1|apply (FR out w'); now left]].
        exists H1, K1. split; [exact A1|]. cbn [th_over th_cur th_started th_loc th_rest].
        split; [reflexivity|]. split; [exact CL|]. split; [exists bpause_op; reflexivity|]. now apply wp_term_of. }
      apply out_post_fin in P1.
      pose proof (closed_step _ e loc o r out CL) as CL1.
      destruct (api_fin e loc o out) as [lc' rc] eqn:EF. cbn [fst snd] in *. destruct P1 as [T1 ST].
      destruct (stops rc) eqn:S.
      * inversion E; subst. split; [|split; [exact C1|apply (FR out w'); now left]].
        exists H1, K1. split; [exact A1|]. cbn [th_over]. now apply ST.
      * destruct (IH lc' w1 _ H1 K1 th' w' evs' A1 C1 T1 CL1 E) as [I1 [I2 I3]].
        split; [exact I1|]. split; [exact I2|]. eapply frame_trans; [apply (FR out w1); now left|exact I3].
    + destruct D as [H1 [K1 [A1 [C1 [W1 [o1 [N1 _]]]]]]]. inversion E; subst.
      split; [|split; [exact C1|apply (FR OPanic w'); right; now exists p1]].
      exists H1, K1. split; [exact A1|]. cbn [th_over th_cur th_started th_loc th_rest].
      split; [reflexivity|]. split; [exact CL|]. split; [now exists o1|exact W1].
Qed.

Lemma settle_inv pbnow t o loc rest p w evs H K th' w' evs' :
  agree t w H K -> clean pz w -> closedz npb (gflag loc) (o :: rest) = true ->
  Wp.wp (blk o) pz p H K (Qr_of loc o) (Qt_of loc o) (QF_of loc o) ->
  settle false false pbnow pb e t o loc rest p w evs = (th', w', evs') ->
  TI t th' w' /\ clean pz w' /\ frame t w w'.
Proof.
  intros A C CL W E. unfold settle in E.
  pose proof (wp_adv (blk o) pz t p (clear_trace w) H K _ _ _ W (agree_clear _ _ _ _ A) (clean_clear _ _ C)) as D.
  assert (FR : forall out w1, adv false false t p (clear_trace w) = AFin out w1 \/ (exists p1, adv false false t p (clear_trace w) = APark p1 w1) -> frame t w w1).
  { intros out w1 X u Hu Ku N Y. pose proof (adv_other t u p (clear_trace w) Hu Ku N (agree_clear _ _ _ _ Y)) as Z.
    destruct X as [X|[p1 X]]; rewrite X in Z; exact Z. }
  destruct (adv false false t p (clear_trace w)) as [out w1|p1 w1] eqn:EA.
  - destruct D as [H1 [K1 [A1 [C1 P1]]]].
    destruct pbnow.
    { inversion E; subst. split; [|split; [exact C1|apply (FR out w'); now left]].
      exists H1, K1. split; [exact A1|]. cbn [th_over th_cur th_started th_loc th_rest].
      split; [reflexivity|]. split; [exact CL|]. split; [exists bpause_op; reflexivity|]. now apply wp_term_of. }
    apply out_post_fin in P1.
    pose proof (closed_step _ e loc o rest out CL) as CL1.
    destruct (api_fin e loc o out) as [lc' rc] eqn:EF. cbn [fst snd] in *. destruct P1 as [T1 ST].
    destruct (stops rc) eqn:S.
    + inversion E; subst. split; [|split; [exact C1|apply (FR out w'); now left]].
      exists H1, K1. split; [exact A1|]. cbn [th_over]. now apply ST.
    + destruct (drain_calls_inv t rest lc' w1 _ H1 K1 th' w' evs' A1 C1 T1 CL1 E) as [I1 [I2 I3]].
      split; [exact I1|]. split; [exact I2|]. eapply frame_trans; [apply (FR out w1); now left|exact I3].
  - destruct D as [H1 [K1 [A1 [C1 [W1 [o1 [N1 _]]]]]]]. inversion E; subst.
    split; [|split; [exact C1|apply (FR OPanic w'); right; now exists p1]].
    exists H1, K1. split; [exact A1|]. cbn [th_over th_cur th_started th_loc th_rest].
    split; [reflexivity|]. split; [exact CL|]. split; [now exists o1|exact W1].
Qed.


(* ---------------------------------------------------------------- the whole system *)
Definition nobody (u : tid) (w : world) : Prop := exists K, agree u w [] K.

Record GI (n : nat) (s : bstate) : Prop := {
  gi_len : length (b_thr s) = n;
  gi_clean : clean pz (b_w s);
  gi_thr : forall t, t < n -> TI t (get_thr (b_thr s) t) (b_w s);
  gi_out : forall u, n <= u -> nobody u (b_w s)
}.

Lemma TI_frame t u th w w' : u <> t -> frame t w w' -> TI u th w -> TI u th w'.
Proof.
  intros N F [H [K [A R]]]. exists H, K. split; [|exact R]. apply (F u H K N A).
Qed.

Lemma enabled_live s t : enabled wpol s t = true -> t < length (b_thr s) /\ th_over (get_thr (b_thr s) t) = false.
Proof.
  unfold enabled. intros E. destruct (th_over (get_thr (b_thr s) t)) eqn:OV; [discriminate|]. split; [|reflexivity].
  destruct (Nat.lt_ge_cases t (length (b_thr s))) as [L|L]; [exact L|].
  unfold get_thr in OV. rewrite nth_overflow in OV by exact L. discriminate.
Qed.

Lemma turn_inv n s t : GI n s -> enabled wpol s t = true -> GI n (turn_g false yr pb wpol e nl s t).
Proof.
  intros G EN. destruct (enabled_live s t EN) as [Lt OV]. rewrite (gi_len _ _ G) in Lt.
  unfold turn_g.
  pose proof (gi_thr _ _ G t Lt) as [H [K [A R]]]. rewrite OV in R.
  assert (UPD : forall th' w' evs' nt, TI t th' w' -> clean pz w' -> frame t (b_w s) w' ->
                GI n (mkb w' (set_nth (b_thr s) t th') evs' nt)).
  { intros th' w' evs' nt I C F. constructor; cbn [b_thr b_w].
    - rewrite set_nth_length. apply (gi_len _ _ G).
    - exact C.
    - intros u Lu. destruct (Nat.eq_dec u t) as [->|N].
      + rewrite get_set_same by (rewrite (gi_len _ _ G); exact Lt). exact I.
      + rewrite get_set_other by exact N. apply (TI_frame t u _ (b_w s) w' N F). apply (gi_thr _ _ G u Lu).
    - intros u Gu. destruct (gi_out _ _ G u Gu) as [Ku Au]. exists Ku. apply F; [lia|exact Au]. }
  destruct (th_cur (get_thr (b_thr s) t)) as [[o p]|] eqn:CU.
  - destruct R as [ST [CL [NX W]]]. rewrite ST. cbn [negb].
    pose proof (wp_step (blk o) pz (pendw wpol (b_thr s) t) t p (clear_trace (b_w s)) H K _ _ _ W
                        (agree_clear _ _ _ _ A) (clean_clear _ _ (gi_clean _ _ G))) as D.
    assert (FS : forall p' w1, step (pendw wpol (b_thr s) t) t p (clear_trace (b_w s)) = SStep p' w1 -> frame t (b_w s) w1).
    { intros p' w1 X u Hu Ku N Y.
      pose proof (step_other (pendw wpol (b_thr s) t) t u p (clear_trace (b_w s)) Hu Ku N (agree_clear _ _ _ _ Y)) as Z.
      rewrite X in Z. exact Z. }
    destruct (step (pendw wpol (b_thr s) t) t p (clear_trace (b_w s))) as [v| | | |p' w1|w1] eqn:SP; try exact G.
    destruct D as [H1 [K1 [A1 [C1 W1]]]]. cbn [negb andb]. rewrite andb_true_r.
    destruct (yr && match parked (get_thr (b_thr s) t) with Some op => is_rel_op op | None => false end) eqn:YR.
    { (* the thread pauses after its release *)
      apply UPD; [|exact C1|apply (FS p' w1); reflexivity].
      exists H1, K1. split; [exact A1|]. cbn [th_over th_cur th_started th_loc th_rest].
      split; [reflexivity|]. split; [exact CL|]. split; [exists pause_op; reflexivity|]. cbn [Wp.wp pause_op]. exact W1. }
    set (lr0 := match parked (get_thr (b_thr s) t) with Some op => is_rel_op op | None => false end).
    set (pbn := pb && negb (is_bpause (parked (get_thr (b_thr s) t)))).
    destruct (settle false lr0 pbn pb e t o (th_loc (get_thr (b_thr s) t)) (th_rest (get_thr (b_thr s) t)) p' w1
                     (wrap (w_trace w1) ++ b_evs s)) as [[th' w'] evs'] eqn:SE.
    (* with ra = false the flag lr is not read *)
    assert (SE' : settle false false pbn pb e t o (th_loc (get_thr (b_thr s) t)) (th_rest (get_thr (b_thr s) t)) p' w1
                         (wrap (w_trace w1) ++ b_evs s) = (th', w', evs')).
    { rewrite <- SE. unfold settle. rewrite (adv_lr_irrelevant lr0). destruct (adv false false t p' (clear_trace w1)); [|reflexivity].
      destruct pbn; [reflexivity|].
      destruct (api_fin e (th_loc (get_thr (b_thr s) t)) o out). destruct (stops r); [reflexivity|]. symmetry. apply drain_calls_lr_irrelevant. }
    destruct (settle_inv pbn t o _ _ p' w1 _ H1 K1 th' w' evs' A1 C1 CL W1 SE') as [I1 [I2 I3]].
    apply UPD; [exact I1|exact I2|]. eapply frame_trans; [apply (FS p' w1); reflexivity|exact I3].
  - destruct R as [ST [T CL]]. rewrite ST. cbn [negb].
    destruct (drain_calls false false pb e t (th_loc (get_thr (b_thr s) t)) (th_rest (get_thr (b_thr s) t)) (b_w s) (b_evs s))
      as [[th' w'] evs'] eqn:DE.
    destruct (drain_calls_inv t _ _ _ _ H K th' w' evs' A (gi_clean _ _ G) T CL DE) as [I1 [I2 I3]].
    apply UPD; assumption.
Qed.

Lemma note_waits_same wpo nl0 ts : forall s, b_w (note_waits wpo nl0 s ts) = b_w s /\ b_thr (note_waits wpo nl0 s ts) = b_thr s.
Proof.
  induction ts as [|t r IH]; intros s; cbn [note_waits]; [auto|].
  destruct (waiting wpo s t); [|apply IH]. destruct (nth t (b_noted s) false); [apply IH|].
  destruct (IH (mkb (b_w s) (b_thr s) (BWait t l (held_by nl0 (b_w s) t) :: b_evs s) (set_nth (b_noted s) t true))) as [A B].
  cbn [b_w b_thr] in *. auto.
Qed.

Lemma GI_ext n s s' : b_w s' = b_w s -> b_thr s' = b_thr s -> GI n s -> GI n s'.
Proof. intros E1 E2 [A B C D]. constructor; rewrite ?E1, ?E2; assumption. Qed.

Lemma enabled_ext s s' t : b_w s' = b_w s -> b_thr s' = b_thr s -> enabled wpol s' t = enabled wpol s t.
Proof. intros E1 E2. unfold enabled. rewrite E1, E2. reflexivity. Qed.

Lemma run_sched_inv n : forall sched s, GI n s -> GI n (fst (run_sched_g false yr pb wpol e nl s sched)).
Proof.
  induction sched as [|t r IH]; intros s G; cbn [run_sched_g].
  - cbn [fst]. destruct (note_waits_same wpol nl (seq 0 (length (b_thr s))) s) as [A B]. eapply GI_ext; eassumption.
  - destruct (note_waits_same wpol nl (seq 0 (length (b_thr s))) s) as [A B].
    set (s1 := note_waits wpol nl s (seq 0 (length (b_thr s)))) in *.
    assert (G1 : GI n s1) by (eapply GI_ext; eassumption).
    destruct (enabled wpol s1 t) eqn:EN; [|exact G1].
    apply IH. apply turn_inv; assumption.
Qed.

(* ---------------------------------------------------------------- the invariant makes every state stable *)
Lemma agree_holds t w H K l : agree t w H K -> (writer_is (w_raw w l) t = true \/ memb t (readers (w_raw w l)) = true) ->
  exists x, In (l, x) H.
Proof.
  intros [A1 [A2 _]] [W|M].
  - exists true. apply hcount_in. rewrite A1, W. lia.
  - exists false. apply hcount_in. rewrite A2. now apply cnt_memb.
Qed.

Lemma agree_nil_noholds t w K l : agree t w [] K -> writer_is (w_raw w l) t = false /\ memb t (readers (w_raw w l)) = false.
Proof.
  intros [A1 [A2 _]]. specialize (A1 l). specialize (A2 l). cbn [hcount] in *. split.
  - destruct (writer_is (w_raw w l) t); [discriminate|reflexivity].
  - destruct (memb t (readers (w_raw w l))) eqn:M; [|reflexivity]. apply cnt_memb in M. lia.
Qed.

(* what a waiting thread holds satisfies the condition of its running call *)
Lemma GI_blocked n s t k l :
  GI n s -> parked (get_thr (b_thr s) t) = Some (ORaw k l) -> rop_blocking k = true ->
  exists H K o p, agree t (b_w s) H K /\ th_cur (get_thr (b_thr s) t) = Some (o, p) /\ blk o H l.
Proof.
  intros G PK BL. destruct (Nat.lt_ge_cases t n) as [Lt|Ge].
  2:{ unfold get_thr in PK. rewrite nth_overflow in PK by (rewrite (gi_len _ _ G); exact Ge). discriminate. }
  destruct (gi_thr _ _ G t Lt) as [H [K [A R]]]. unfold parked in PK.
  destruct (th_over (get_thr (b_thr s) t)); cbn [orb] in PK; [discriminate|].
  destruct (th_started (get_thr (b_thr s) t)); cbn [negb] in PK; [|discriminate].
  destruct (th_cur (get_thr (b_thr s) t)) as [[o p]|]; [|discriminate].
  destruct R as [_ [_ [_ W]]]. pose proof (wp_nextop (blk o) pz p H K _ _ _ W) as N.
  destruct (nextop p) as [v| | | |op]; try discriminate. inversion PK; subst op.
  exists H, K, o, p. split; [exact A|]. split; [reflexivity|exact (proj1 N BL)].
Qed.

(* C01: the condition of every call is the rank discipline *)
Hypothesis BR : forall o H l, blk o H l -> rank_ok nl rk H l.

Theorem GI_stable n s : GI n s -> stable_state nl wpol rk (bound_of sc) s.
Proof.
  intros G. constructor.
  - (* rank *)
    intros t l l' [Lt OV] [k [PK [BL _]]] [Hl' HH]. rewrite (gi_len _ _ G) in Lt.
    destruct (gi_thr _ _ G t Lt) as [H [K [A R]]]. rewrite OV in R. unfold parked in PK. rewrite OV in PK.
    destruct (th_started (get_thr (b_thr s) t)); cbn [negb orb] in PK; [|discriminate].
    destruct (th_cur (get_thr (b_thr s) t)) as [[o p]|]; [|discriminate].
    destruct R as [_ [_ [_ W]]]. pose proof (wp_nextop (blk o) pz p H K _ _ _ W) as N.
    destruct (nextop p) as [v| | | |op]; try discriminate. inversion PK; subst op.
    destruct (BR _ _ _ (proj1 N BL)) as [_ RK]. destruct (agree_holds t (b_w s) H K l' A HH) as [x Hx]. apply (RK _ Hx).
  - intros l. apply rk_bound.
  - (* universe *)
    intros t l [Lt OV] [k [PK [BL _]]]. rewrite (gi_len _ _ G) in Lt.
    destruct (gi_thr _ _ G t Lt) as [H [K [A R]]]. rewrite OV in R. unfold parked in PK. rewrite OV in PK.
    destruct (th_started (get_thr (b_thr s) t)); cbn [negb orb] in PK; [|discriminate].
    destruct (th_cur (get_thr (b_thr s) t)) as [[o p]|]; [|discriminate].
    destruct R as [_ [_ [_ W]]]. pose proof (wp_nextop (blk o) pz p H K _ _ _ W) as N.
    destruct (nextop p) as [v| | | |op]; try discriminate. inversion PK; subst op.
    exact (proj1 (BR _ _ _ (proj1 N BL))).
  - (* holders are live threads *)
    intros u l [Hl HH]. unfold live. rewrite (gi_len _ _ G).
    destruct (Nat.lt_ge_cases u n) as [Lu|Gu].
    + split; [exact Lu|]. destruct (th_over (get_thr (b_thr s) u)) eqn:OV; [|reflexivity].
      destruct (gi_thr _ _ G u Lu) as [H [K [A R]]]. rewrite OV in R. subst H.
      destruct (agree_nil_noholds u (b_w s) K l A) as [N1 N2]. destruct HH; congruence.
    + destruct (gi_out _ _ G u Gu) as [K A]. destruct (agree_nil_noholds u (b_w s) K l A) as [N1 N2]. destruct HH; congruence.
  - (* parked *)
    intros t [Lt OV] ST. rewrite (gi_len _ _ G) in Lt.
    destruct (gi_thr _ _ G t Lt) as [H [K [A R]]]. rewrite OV in R. unfold parked. rewrite OV, ST. cbn [negb orb].
    destruct (th_cur (get_thr (b_thr s) t)) as [[o p]|].
    + destruct R as [_ [_ [[op N] _]]]. rewrite N. now exists op.
    + destruct R as [ST' _]. congruence.
Qed.

(* ---------------------------------------------------------------- the initial state *)
Hypothesis PRE : sc_pre sc = [].
Hypothesis F1 : sc_f1 sc = [].
Hypothesis FP : sc_fp sc = [].
Hypothesis CLOSED : Forall (fun ops => closedz npb false ops = true) (bs_progs b).

Lemma init_agree u : agree u (sc_world sc) [] false.
Proof.
  unfold sc_world. fold sc. rewrite PRE. cbn [fold_right]. split; [|split]; cbn [w_raw w_keyf hcount]; reflexivity.
Qed.

Lemma GI_init : GI (length (bs_progs b)) (binit b).
Proof.
  constructor; unfold binit; cbn [b_thr b_w].
  - apply map_length.
  - fold sc. unfold clean, sc_world. cbn [w_f1 w_fp w_kill]. auto.
  - intros t Lt. exists [], false. split; [apply init_agree|].
    unfold get_thr. rewrite (nth_map_lt (fun ops => mkthr None ops tl0 false false) (bs_progs b) t _ [] Lt). cbn [th_over th_cur th_started th_loc th_rest]. split; [reflexivity|]. split.
    + unfold TB. cbn [tl0 guard haskey]. split; [reflexivity|discriminate].
    + rewrite Forall_forall in CLOSED. apply CLOSED. now apply nth_In.
  - intros u _. exists false. apply init_agree.
Qed.

Theorem every_schedule_stable sched :
  stable_state nl wpol rk (bound_of sc) (fst (run_sched_g false yr pb wpol e nl (binit b) sched)).
Proof. eapply GI_stable. apply run_sched_inv. apply GI_init. Qed.

Lemma reach_GI sched : GI (length (bs_progs b)) (fst (run_sched_g false yr pb wpol e nl (binit b) sched)).
Proof. apply run_sched_inv. apply GI_init. Qed.

(* user data is read under a hold and written under the exclusive hold *)
Lemma GI_data n s t pos l : GI n s ->
  (parked (get_thr (b_thr s) t) = Some (ORead pos l) -> holds_b (b_w s) t l = true) /\
  (parked (get_thr (b_thr s) t) = Some (OWrite pos l) -> writer_is (w_raw (b_w s) l) t = true).
Proof.
  intros G.
  assert (X : forall op, parked (get_thr (b_thr s) t) = Some op ->
              exists H K o p, agree t (b_w s) H K /\ nextop p = NOp op /\
                              Wp.wp (blk o) pz p H K (Qr_of (th_loc (get_thr (b_thr s) t)) o) (Qt_of (th_loc (get_thr (b_thr s) t)) o)
                                 (QF_of (th_loc (get_thr (b_thr s) t)) o)).
  { intros op PK. destruct (Nat.lt_ge_cases t n) as [Lt|Ge].
    2:{ unfold get_thr in PK. rewrite nth_overflow in PK by (rewrite (gi_len _ _ G); exact Ge). discriminate. }
    destruct (gi_thr _ _ G t Lt) as [H [K [A R]]]. unfold parked in PK.
    destruct (th_over (get_thr (b_thr s) t)); cbn [orb] in PK; [discriminate|].
    destruct (th_started (get_thr (b_thr s) t)); cbn [negb] in PK; [|discriminate].
    destruct (th_cur (get_thr (b_thr s) t)) as [[o p]|]; [|discriminate].
    destruct R as [_ [_ [_ W]]]. destruct (nextop p) as [v| | | |op'] eqn:N; try discriminate. inversion PK; subst op'.
    exists H, K, o, p. auto. }
  split; intros PK; destruct (X _ PK) as [H [K [o [p [A [N W]]]]]]; pose proof (wp_nextop (blk o) pz p H K _ _ _ W) as D; rewrite N in D.
  - destruct D as [x Hx]. destruct A as [A1 [A2 _]]. unfold holds_b. destruct x.
    + apply hcount_in in Hx. rewrite A1 in Hx. destruct (writer_is (w_raw (b_w s) l) t); [reflexivity|lia].
    + apply hcount_in in Hx. rewrite A2 in Hx. assert (M : memb t (readers (w_raw (b_w s) l)) = true) by (apply cnt_memb; exact Hx).
      rewrite M. apply orb_true_r.
  - destruct A as [A1 _]. apply hcount_in in D. rewrite A1 in D. destruct (writer_is (w_raw (b_w s) l) t); [reflexivity|lia].
Qed.

(* a lock is released only by a thread that holds it, in the mode it holds it *)
Lemma GI_release n s t k l : GI n s ->
  parked (get_thr (b_thr s) t) = Some (ORaw k l) ->
  match k with
  | OUnlock => writer_is (w_raw (b_w s) l) t = true
  | OUnlockSh => memb t (readers (w_raw (b_w s) l)) = true
  | _ => True
  end.
Proof.
  intros G PK. destruct (Nat.lt_ge_cases t n) as [Lt|Ge].
  2:{ unfold get_thr in PK. rewrite nth_overflow in PK by (rewrite (gi_len _ _ G); exact Ge). discriminate. }
  destruct (gi_thr _ _ G t Lt) as [H [K [A R]]]. unfold parked in PK.
  destruct (th_over (get_thr (b_thr s) t)); cbn [orb] in PK; [discriminate|].
  destruct (th_started (get_thr (b_thr s) t)); cbn [negb] in PK; [|discriminate].
  destruct (th_cur (get_thr (b_thr s) t)) as [[o p]|]; [|discriminate].
  destruct R as [_ [_ [_ W]]]. pose proof (wp_nextop (blk o) pz p H K _ _ _ W) as N.
  destruct (nextop p) as [v| | | |op]; try discriminate. inversion PK; subst op. destruct N as [_ N].
  destruct A as [A1 [A2 _]]. destruct k; try exact I; cbn [rop_ex] in N; apply hcount_in in N.
  - rewrite A1 in N. destruct (writer_is (w_raw (b_w s) l) t); [reflexivity|lia].
  - rewrite A2 in N. now apply cnt_memb.
Qed.

(* a thread whose call has run to its end (paused before it returns) holds what the call's result says: the locks of the
   guard it returns, nothing if it returns none *)
Lemma GI_boundary n s t o k out : GI n s ->
  th_over (get_thr (b_thr s) t) = false ->
  th_cur (get_thr (b_thr s) t) = Some (o, Op bpause_op k) -> k (VBool false) = term_of out ->
  exists H K, agree t (b_w s) H K /\ out_post (Qr_of (th_loc (get_thr (b_thr s) t)) o) (Qt_of (th_loc (get_thr (b_thr s) t)) o)
                                               (QF_of (th_loc (get_thr (b_thr s) t)) o) out H K.
Proof.
  intros G OV CU KE. destruct (Nat.lt_ge_cases t n) as [Lt|Ge].
  2:{ unfold get_thr in CU. rewrite nth_overflow in CU by (rewrite (gi_len _ _ G); exact Ge). discriminate. }
  destruct (gi_thr _ _ G t Lt) as [H [K [A R]]]. rewrite OV, CU in R. destruct R as [_ [_ [_ W]]].
  exists H, K. split; [exact A|]. cbn [Wp.wp bpause_op] in W. rewrite KE in W.
  destruct out; cbn [term_of Wp.wp out_post] in *; try exact W; contradiction.
Qed.

End Main.

(* ---------------------------------------------------------------- exclusive holds stay exclusive (any scenario) *)
Lemma rawwf_clear w : rawwf w -> rawwf (clear_trace w).
Proof. apply rawwf_ext. intros; reflexivity. Qed.

Lemma drain_calls_rawwf ra lr pb e t : forall rest loc w evs,
  rawwf w -> rawwf (snd (fst (drain_calls ra lr pb e t loc rest w evs))).
Proof.
  induction rest as [|o r IH]; intros loc w evs R; cbn [drain_calls]; [exact R|].
  destruct (api_prog e loc o) as [p|]; [|apply IH; exact R].
  pose proof (adv_rawwf ra lr t p (clear_trace w) (rawwf_clear _ R)) as D.
  destruct (adv ra lr t p (clear_trace w)) as [out w'|p' w']; [|exact D].
  destruct pb; [exact D|].
  destruct (api_fin e loc o out) as [lc' rc]. destruct (stops rc); [exact D|]. apply IH. exact D.
Qed.

Lemma settle_rawwf ra lr pbnow pb e t o loc rest p w evs :
  rawwf w -> rawwf (snd (fst (settle ra lr pbnow pb e t o loc rest p w evs))).
Proof.
  intros R. unfold settle.
  pose proof (adv_rawwf ra lr t p (clear_trace w) (rawwf_clear _ R)) as D.
  destruct (adv ra lr t p (clear_trace w)) as [out w'|p' w']; [|exact D].
  destruct pbnow; [exact D|].
  destruct (api_fin e loc o out) as [lc' rc]. destruct (stops rc); [exact D|]. apply drain_calls_rawwf. exact D.
Qed.

Lemma turn_rawwf ra yr pb wpo e nl0 s t : rawwf (b_w s) -> rawwf (b_w (turn_g ra yr pb wpo e nl0 s t)).
Proof.
  intros R. unfold turn_g. destruct (negb (th_started (get_thr (b_thr s) t))).
  - pose proof (drain_calls_rawwf ra false pb e t (th_rest (get_thr (b_thr s) t)) (th_loc (get_thr (b_thr s) t)) (b_w s) (b_evs s) R) as D.
    destruct (drain_calls ra false pb e t (th_loc (get_thr (b_thr s) t)) (th_rest (get_thr (b_thr s) t)) (b_w s) (b_evs s)) as [[th' w'] evs'].
    exact D.
  - destruct (th_cur (get_thr (b_thr s) t)) as [[o p]|]; [|exact R].
    pose proof (step_rawwf (pendw wpo (b_thr s) t) t p (clear_trace (b_w s)) (rawwf_clear _ R)) as D.
    destruct (step (pendw wpo (b_thr s) t) t p (clear_trace (b_w s))) as [v| | | |p' w1|w1]; try exact R.
    match goal with |- context [if ?c then _ else _] => destruct c end; [exact D|].
    match goal with |- context [settle ?a ?b ?b1 ?b2 ?c ?d ?e0 ?f ?g ?h ?i ?j] =>
      pose proof (settle_rawwf a b b1 b2 c d e0 f g h i j D) as X; destruct (settle a b b1 b2 c d e0 f g h i j) as [[th' w'] evs'] end.
    exact X.
Qed.

Lemma run_sched_rawwf ra yr pb wpo e nl0 : forall sched s, rawwf (b_w s) -> rawwf (b_w (fst (run_sched_g ra yr pb wpo e nl0 s sched))).
Proof.
  induction sched as [|t r IH]; intros s R; cbn [run_sched_g].
  - cbn [fst]. destruct (note_waits_same wpo nl0 (seq 0 (length (b_thr s))) s) as [A _]. rewrite A. exact R.
  - destruct (note_waits_same wpo nl0 (seq 0 (length (b_thr s))) s) as [A _].
    destruct (enabled wpo (note_waits wpo nl0 s (seq 0 (length (b_thr s)))) t).
    + apply IH. apply turn_rawwf. rewrite A. exact R.
    + cbn [fst]. rewrite A. exact R.
Qed.

(* ---------------------------------------------------------------- the hypotheses, as a decidable test of the scenario *)
Section Decide.
(* a blocking condition per collection, and a boolean test that implies it *)
Variable blc : nat -> list hold -> lock -> Prop.
Variable blcb : nat -> list hold -> lock -> bool.
Hypothesis blcb_ok : forall c H l, blcb c H l = true -> blc c H l.

Definition blk_of (o : apiop) : list hold -> lock -> Prop :=
  match o with
  | AAcquire c _ f => if blocking_flavour f then blc c else fun _ _ => False   (* only blocking acquisitions wait *)
  | _ => fun _ _ => False
  end.

Fixpoint ascb (c : nat) (m : mode) (H : list hold) (ls : list lk) : bool :=
  match ls with [] => true | x :: r => blcb c H (snd x) && ascb c m (hold_of m x :: H) r end.

Definition alg_okb (c : nat) (m : mode) (a : alg) : bool :=
  match a with
  | AlgLeaf k l => blcb c [] l
  | AlgOrdered rs => ascb c m [] (rsleaves rs)
  | AlgRetry rs => forallb (fun r => ascb c m [] (rleaves r)) rs
  | AlgNone => true
  end.

Lemma ascb_ok c m ls : forall H, ascb c m H ls = true -> asc (blc c) m H ls.
Proof.
  induction ls as [|x r IH]; intros H E; cbn [ascb asc] in *; [exact I|].
  apply andb_true_iff in E. destruct E as [E1 E2]. split; [now apply blcb_ok|now apply IH].
Qed.

Lemma alg_okb_ok c m a : alg_okb c m a = true -> alg_ok (blc c) m a.
Proof.
  destruct a as [k l|rs|rs|]; cbn [alg_okb alg_ok]; intros E.
  - now apply blcb_ok.
  - now apply ascb_ok.
  - apply Forall_forall. intros r Hr. rewrite forallb_forall in E. apply ascb_ok. now apply E.
  - exact I.
Qed.

Definition env_okb (e : env) : bool :=
  forallb (fun x => acquirable (snd x) && alg_okb (fst x) Sh (alg_of (e_am e) (snd x)) && alg_okb (fst x) Ex (alg_of (e_am e) (snd x)))
          (combine (seq 0 (length (e_colls e))) (e_colls e)).

Lemma nth_error_combine_seq {A} (l : list A) : forall n c x, nth_error l c = Some x -> In (n + c, x) (combine (seq n (length l)) l).
Proof.
  induction l as [|y r IH]; intros n c x E; [destruct c; discriminate|].
  destruct c as [|c]; cbn [nth_error] in E.
  - inversion E; subst. cbn [length seq combine]. left. f_equal. lia.
  - cbn [length seq combine]. right. replace (n + S c) with (S n + c) by lia. apply IH. exact E.
Qed.

Lemma env_okb_ok e : env_okb e = true -> env_ok blk_of e.
Proof.
  unfold env_okb, env_ok, coll. intros E c s Hc. rewrite forallb_forall in E.
  specialize (E (c, s) (nth_error_combine_seq (e_colls e) 0 c s Hc)). cbn [fst snd] in E.
  apply andb_true_iff in E. destruct E as [E E3].
  apply andb_true_iff in E. destruct E as [E1 E2]. split; [exact E1|]. intros [|] f BF; cbn [blk_of]; rewrite BF; now apply alg_okb_ok.
Qed.

Definition is_nilb {A} (l : list A) : bool := match l with [] => true | _ => false end.

(* the scenarios the theorems speak about: no ghost holds, no injected faults, every collection's blocking
   acquisitions satisfy the condition, and every thread's program drops the guards it takes *)
Definition wfB_genz (np : bool) (b : bscen) : bool :=
  let sc := bs_sc b in
  is_nilb (sc_pre sc) && is_nilb (sc_f1 sc) && is_nilb (sc_fp sc) &&
  forallb (closedz np false) (bs_progs b) &&
  env_okb (sc_env sc).
Definition wfB_gen : bscen -> bool := wfB_genz false.

Lemma wfB_partsz np b : wfB_genz np b = true ->
  env_ok blk_of (sc_env (bs_sc b)) /\ sc_pre (bs_sc b) = [] /\ sc_f1 (bs_sc b) = [] /\
  sc_fp (bs_sc b) = [] /\ Forall (fun ops => closedz np false ops = true) (bs_progs b).
Proof.
  unfold wfB_genz. intros W. repeat (apply andb_true_iff in W; destruct W as [W ?]).
  split; [now apply env_okb_ok|].
  split; [destruct (sc_pre (bs_sc b)); [reflexivity|discriminate]|].
  split; [destruct (sc_f1 (bs_sc b)); [reflexivity|discriminate]|].
  split; [destruct (sc_fp (bs_sc b)); [reflexivity|discriminate]|].
  apply Forall_forall. intros ops Ho. rewrite forallb_forall in H0. now apply H0.
Qed.

Lemma wfB_parts b : wfB_gen b = true ->
  env_ok blk_of (sc_env (bs_sc b)) /\ sc_pre (bs_sc b) = [] /\ sc_f1 (bs_sc b) = [] /\
  sc_fp (bs_sc b) = [] /\ Forall (fun ops => closed false ops = true) (bs_progs b).
Proof. apply wfB_partsz. Qed.

Lemma reach_GI_decz yr pb np (pz : Prop) (PZ : np = false -> pz) b sched : wfB_genz np b = true ->
  GI b blk_of pz np (length (bs_progs b))
     (fst (run_sched_g false yr pb (bs_wp b) (sc_env (bs_sc b)) (sc_nlocks (bs_sc b)) (binit b) sched)).
Proof. intros W. destruct (wfB_partsz np b W) as [EO [PRE [F1 [FP CL]]]]. apply reach_GI; assumption. Qed.

Lemma reach_GI_dec yr pb b sched : wfB_gen b = true ->
  GI b blk_of True false (length (bs_progs b))
     (fst (run_sched_g false yr pb (bs_wp b) (sc_env (bs_sc b)) (sc_nlocks (bs_sc b)) (binit b) sched)).
Proof. apply reach_GI_decz. intros _. exact I. Qed.
End Decide.

(* ---------------------------------------------------------------- C01 *)
Definition rank_okb (nl : nat) (rk : lock -> nat) (H : list hold) (l : lock) : bool :=
  Nat.ltb l nl && forallb (fun x => Nat.ltb (rk (fst x)) (rk l)) H.

Lemma rank_okb_ok nl rk H l : rank_okb nl rk H l = true -> rank_ok nl rk H l.
Proof.
  unfold rank_okb. intros E. apply andb_true_iff in E. destruct E as [E1 E2]. split; [now apply Nat.ltb_lt|].
  rewrite forallb_forall in E2. intros x Hx. apply Nat.ltb_lt. now apply E2.
Qed.

(* every collection's blocking acquisitions ascend in the scenario's address-based rank *)
Definition wfB (b : bscen) : bool :=
  wfB_gen (fun _ => rank_okb (sc_nlocks (bs_sc b)) (rk_of (bs_sc b))) b.

Lemma blk_rank nl rk o H l : blk_of (fun _ => rank_ok nl rk) o H l -> rank_ok nl rk H l.
Proof. destruct o as [| | |c m f| | | | | | | | |]; cbn [blk_of]; try tauto. destruct (blocking_flavour f); tauto. Qed.

Theorem every_schedule_stable_g yr pb b sched :
  wfB b = true ->
  let sc := bs_sc b in
  stable_state (sc_nlocks sc) (bs_wp b) (rk_of sc) (bound_of sc)
               (fst (run_sched_g false yr pb (bs_wp b) (sc_env sc) (sc_nlocks sc) (binit b) sched)).
Proof.
  intros W sc.
  pose proof (reach_GI_dec (fun _ => rank_ok (sc_nlocks sc) (rk_of sc)) (fun _ => rank_okb (sc_nlocks sc) (rk_of sc))
                           (fun _ H l => rank_okb_ok _ _ H l) yr pb b sched W) as G.
  eapply GI_stable; [|exact G]. intros o H l. apply blk_rank.
Qed.

Theorem every_schedule_stable_dec b sched :
  wfB b = true ->
  let sc := bs_sc b in
  stable_state (sc_nlocks sc) (bs_wp b) (rk_of sc) (bound_of sc)
               (fst (run_sched (bs_wp b) (sc_env sc) (sc_nlocks sc) (binit b) sched)).
Proof. exact (every_schedule_stable_g false false b sched). Qed.

(* no schedule leads the model into a deadlock *)
Theorem every_schedule_deadlock_free b sched :
  wfB b = true ->
  let sc := bs_sc b in
  let s := fst (run_sched (bs_wp b) (sc_env sc) (sc_nlocks sc) (binit b) sched) in
  (exists t, live s t) -> exists t', enabled (bs_wp b) s t' = true.
Proof.
  intros W sc s. apply (no_deadlock (sc_nlocks sc) (bs_wp b) (rk_of sc) (bound_of sc) s).
  apply every_schedule_stable_dec. exact W.
Qed.

Theorem every_schedule_no_self_wait b sched t l :
  wfB b = true ->
  let sc := bs_sc b in
  let s := fst (run_sched (bs_wp b) (sc_env sc) (sc_nlocks sc) (binit b) sched) in
  live s t -> waits_for (bs_wp b) s t l -> ~ holds (sc_nlocks sc) (b_w s) t l.
Proof.
  intros W sc s. apply (no_self_wait (sc_nlocks sc) (bs_wp b) (rk_of sc) (bound_of sc) s).
  apply every_schedule_stable_dec. exact W.
Qed.

(* the status the model reports is never "deadlock" or "self wait" *)
Theorem model_never_reports_deadlock b sched :
  wfB b = true ->
  let st := bo_status (model_bobs b sched) in st <> BDeadlock /\ st <> BSelfWait.
Proof.
  intros W. unfold model_bobs, model_bobs_g.
  assert (D : let s := fst (run_sched_g false (bs_yr b) false (bs_wp b) (sc_env (bs_sc b)) (sc_nlocks (bs_sc b)) (binit b) sched) in
              (exists t, live s t) -> exists t', enabled (bs_wp b) s t' = true).
  { intros s. apply (no_deadlock (sc_nlocks (bs_sc b)) (bs_wp b) (rk_of (bs_sc b)) (bound_of (bs_sc b)) s).
    apply every_schedule_stable_g. exact W. }
  cbn zeta in D.
  destruct (run_sched_g false (bs_yr b) false (bs_wp b) (sc_env (bs_sc b)) (sc_nlocks (bs_sc b)) (binit b) sched) as [s ok] eqn:R.
  cbn [fst] in D. cbn [bo_status]. unfold status_of.
  destruct (negb ok); [split; discriminate|].
  destruct (all_over s) eqn:AO; [split; discriminate|].
  assert (L : exists t, live s t).
  { unfold all_over in AO. destruct (forallb th_over (b_thr s)) eqn:F; [discriminate|].
    assert (X : exists th, In th (b_thr s) /\ th_over th = false).
    { clear -F. induction (b_thr s) as [|x r IH]; cbn [forallb] in F; [discriminate|].
      destruct (th_over x) eqn:O; cbn [andb] in F.
      - destruct (IH F) as [th [I1 I2]]. exists th. split; [now right|exact I2].
      - exists x. split; [now left|exact O]. }
    destruct X as [th [I1 I2]]. destruct (In_nth _ _ (mkthr None [] tl0 true true) I1) as [t [Lt Et]].
    exists t. split; [exact Lt|]. unfold get_thr. now rewrite Et. }
  destruct (D L) as [t' En].
  assert (AE : any_enabled (bs_wp b) s = true).
  { unfold any_enabled. apply existsb_exists. exists t'. split; [|exact En]. apply in_seq.
    unfold enabled in En. destruct (Nat.lt_ge_cases t' (length (b_thr s))) as [X|X]; [lia|].
    unfold get_thr in En. rewrite nth_overflow in En by exact X. cbn [th_over] in En. discriminate. }
  rewrite AE. split; discriminate.
Qed.

(* ---------------------------------------------------------------- C02 on every schedule *)
Theorem every_schedule_data_under_hold b sched t pos l :
  wfB b = true ->
  let sc := bs_sc b in
  let s := fst (run_sched (bs_wp b) (sc_env sc) (sc_nlocks sc) (binit b) sched) in
  (parked (get_thr (b_thr s) t) = Some (ORead pos l) -> holds_b (b_w s) t l = true) /\
  (parked (get_thr (b_thr s) t) = Some (OWrite pos l) -> writer_is (w_raw (b_w s) l) t = true).
Proof.
  intros W sc s. eapply GI_data.
  apply (reach_GI_dec (fun _ => rank_ok (sc_nlocks sc) (rk_of sc)) (fun _ => rank_okb (sc_nlocks sc) (rk_of sc))
                      (fun _ H l => rank_okb_ok _ _ H l) false false b sched W).
Qed.

(* two threads are never at conflicting accesses of the same lock's data *)
Theorem every_schedule_exclusive b sched t u pos pos' l :
  wfB b = true ->
  let sc := bs_sc b in
  let s := fst (run_sched (bs_wp b) (sc_env sc) (sc_nlocks sc) (binit b) sched) in
  t <> u ->
  parked (get_thr (b_thr s) t) = Some (OWrite pos l) ->
  parked (get_thr (b_thr s) u) <> Some (OWrite pos' l) /\ parked (get_thr (b_thr s) u) <> Some (ORead pos' l).
Proof.
  intros W sc s N PT.
  pose proof (proj2 (every_schedule_data_under_hold b sched t pos l W) PT) as WT. fold sc in WT. fold s in WT.
  assert (R : rawwf (b_w s)).
  { apply run_sched_rawwf. unfold binit. cbn [b_w].
    destruct (wfB_parts _ _ (fun _ H l => rank_okb_ok _ _ H l) b W) as [_ [PRE _]].
    intros l0. unfold sc_world. rewrite PRE. cbn [fold_right w_raw]. intros X. reflexivity. }
  unfold writer_is in WT. destruct (writer (w_raw (b_w s) l)) as [x|] eqn:EW; [|discriminate]. apply Nat.eqb_eq in WT. subst x.
  split; intros PU.
  - pose proof (proj2 (every_schedule_data_under_hold b sched u pos' l W) PU) as WU. fold sc in WU. fold s in WU.
    unfold writer_is in WU. rewrite EW in WU. apply Nat.eqb_eq in WU. congruence.
  - pose proof (proj1 (every_schedule_data_under_hold b sched u pos' l W) PU) as HU. fold sc in HU. fold s in HU.
    unfold holds_b, writer_is in HU. rewrite EW in HU. destruct (Nat.eqb_spec t u); [congruence|]. cbn [orb] in HU.
    specialize (R l). unfold xwf in R. rewrite EW in R. rewrite R in HU by discriminate. discriminate.
Qed.

(* ---------------------------------------------------------------- nothing stays held (C05 / C11 on every schedule) *)
(* when every thread has finished — normally, or after panics inside closures or with live guards — every lock is free *)
Theorem every_schedule_all_released b sched l :
  wfB b = true ->
  let sc := bs_sc b in
  let s := fst (run_sched (bs_wp b) (sc_env sc) (sc_nlocks sc) (binit b) sched) in
  all_over s = true -> l < sc_nlocks sc -> w_raw (b_w s) l = raw_free.
Proof.
  intros W sc s AO Ll. pose proof (every_schedule_stable_dec b sched W) as SS. fold sc in SS. fold s in SS.
  assert (NL : forall u, ~ live s u).
  { intros u [Lu Ou]. unfold all_over in AO. rewrite forallb_forall in AO.
    assert (In (get_thr (b_thr s) u) (b_thr s)) by (unfold get_thr; now apply nth_In).
    rewrite (AO _ H) in Ou. discriminate. }
  assert (NH : forall u, ~ holds (sc_nlocks sc) (b_w s) u l).
  { intros u Hh. apply (NL u). eapply ss_holders; eassumption. }
  destruct (w_raw (b_w s) l) as [wr rd] eqn:E. unfold raw_free. f_equal.
  - destruct wr as [u|]; [|reflexivity]. exfalso. apply (NH u). split; [exact Ll|]. left. unfold writer_is. rewrite E. cbn. apply Nat.eqb_refl.
  - destruct rd as [|u r]; [reflexivity|]. exfalso. apply (NH u). split; [exact Ll|]. right. rewrite E. cbn. now rewrite Nat.eqb_refl.
Qed.

(* ---------------------------------------------------------------- C05 on every schedule: releases by the holder, in its mode *)
Theorem every_schedule_release_held b sched t k l :
  wfB b = true ->
  let sc := bs_sc b in
  let s := fst (run_sched (bs_wp b) (sc_env sc) (sc_nlocks sc) (binit b) sched) in
  parked (get_thr (b_thr s) t) = Some (ORaw k l) ->
  match k with
  | OUnlock => writer_is (w_raw (b_w s) l) t = true
  | OUnlockSh => memb t (readers (w_raw (b_w s) l)) = true
  | _ => True
  end.
Proof.
  intros W sc s. eapply GI_release.
  apply (reach_GI_dec (fun _ => rank_ok (sc_nlocks sc) (rk_of sc)) (fun _ => rank_okb (sc_nlocks sc) (rk_of sc))
                      (fun _ H l => rank_okb_ok _ _ H l) false false b sched W).
Qed.

(* ---------------------------------------------------------------- what a thread holds between two calls (C03, C04, C11) *)
(* the model with pauses at call boundaries: every schedule, every thread whose call has run to its end *)
Theorem every_schedule_call_boundary b sched t o k out :
  wfB b = true ->
  let sc := bs_sc b in
  let s := fst (run_sched_g false false true (bs_wp b) (sc_env sc) (sc_nlocks sc) (binit b) sched) in
  let th := get_thr (b_thr s) t in
  th_over th = false -> th_cur th = Some (o, Op bpause_op k) -> k (VBool false) = term_of out ->
  (match out with ODone _ | OPanic => True | _ => False end) ->
  exists H K, agree t (b_w s) H K /\ TBfin (api_fin (sc_env sc) (th_loc th) o out) H K.
Proof.
  intros W sc s th OV CU KE OK.
  pose proof (reach_GI_dec (fun _ => rank_ok (sc_nlocks sc) (rk_of sc)) (fun _ => rank_okb (sc_nlocks sc) (rk_of sc))
                           (fun _ H l => rank_okb_ok _ _ H l) false true b sched W) as G.
  destruct (GI_boundary b _ _ _ _ _ t o k out G OV CU KE) as [H [K [A P]]].
  exists H, K. split; [exact A|]. destruct out; try contradiction; exact P.
Qed.

(* C03 / C11: when the call hands the key back without a guard — guard dropped or unlocked, scoped call returned or
   unwound, failed try, user panic with a live guard — the thread holds nothing *)
Theorem every_schedule_key_back_holds_nothing b sched t o k out l :
  wfB b = true ->
  let sc := bs_sc b in
  let s := fst (run_sched_g false false true (bs_wp b) (sc_env sc) (sc_nlocks sc) (binit b) sched) in
  let th := get_thr (b_thr s) t in
  th_over th = false -> th_cur th = Some (o, Op bpause_op k) -> k (VBool false) = term_of out ->
  (match out with ODone _ | OPanic => True | _ => False end) ->
  guard (fst (api_fin (sc_env sc) (th_loc th) o out)) = None ->
  holds_b (b_w s) t l = false.
Proof.
  intros W sc s th OV CU KE OK GN.
  destruct (every_schedule_call_boundary b sched t o k out W OV CU KE OK) as [H [K [A [T _]]]].
  fold sc in T. fold s in T. fold th in T. unfold TB in T. rewrite GN in T. destruct T as [-> _].
  destruct (agree_nil_noholds b _ _ _ l A) as [N1 N2]. unfold holds_b. subst s sc. rewrite N1, N2. reflexivity.
Qed.

(* C04: a guard is returned only with exactly the leaves of the collection held, each as often as it is a leaf, in the
   requested mode *)
Theorem every_schedule_guard_holds_exactly b sched t c m f k v s0 :
  wfB b = true ->
  let sc := bs_sc b in
  let s := fst (run_sched_g false false true (bs_wp b) (sc_env sc) (sc_nlocks sc) (binit b) sched) in
  let th := get_thr (b_thr s) t in
  th_over th = false -> th_cur th = Some (AAcquire c m f, Op bpause_op k) -> k (VBool false) = Ret v ->
  (f = FGuard \/ f = FTry) -> v <> VNat 1 -> coll (sc_env sc) c = Some s0 ->
  exists H K, agree t (b_w s) H K /\ Permutation H (holds_of m (gleaves (gitems s0))).
Proof.
  intros W sc s th OV CU KE FF V1 EC.
  destruct (every_schedule_call_boundary b sched t (AAcquire c m f) k (ODone v) W OV CU KE I) as [H [K [A [T _]]]].
  exists H, K. split; [exact A|]. fold sc in T. fold s in T. fold th in T.
  assert (G : guard (fst (api_fin (sc_env sc) (th_loc th) (AAcquire c m f) (ODone v))) = Some (mkg m (gitems s0))).
  { cbn [api_fin]. rewrite EC. destruct FF as [-> | ->]; destruct v as [|bb|[|[|n]]]; cbn [fst guard]; try reflexivity; now contradiction V1. }
  unfold TB in T. rewrite G in T. destruct T as [P _]. exact P.
Qed.

(* ---------------------------------------------------------------- C10 on every schedule: user panics never kill a lock *)
(* whatever the threads do — panics with live guards and inside closures included — no lock is ever marked unusable (the
   kill flag is set only when a raw lock operation itself panics) *)
Theorem every_schedule_never_killed yr pb b sched l :
  wfB b = true ->
  let sc := bs_sc b in
  w_kill (b_w (fst (run_sched_g false yr pb (bs_wp b) (sc_env sc) (sc_nlocks sc) (binit b) sched))) l = false.
Proof.
  intros W sc.
  pose proof (reach_GI_dec (fun _ => rank_ok (sc_nlocks sc) (rk_of sc)) (fun _ => rank_okb (sc_nlocks sc) (rk_of sc))
                           (fun _ H l => rank_okb_ok _ _ H l) yr pb b sched W) as G.
  exact (proj1 (proj2 (proj2 (gi_clean _ _ _ _ _ _ G))) l).
Qed.

(* ---------------------------------------------------------------- C10 on every schedule: executions without panics never poison *)
(* the scenarios of [wfB] in which, in addition, no thread's program contains a `panic!` or a panicking closure *)
Definition wfB_np (b : bscen) : bool :=
  wfB_genz (fun _ => rank_okb (sc_nlocks (bs_sc b)) (rk_of (bs_sc b))) true b.

Lemma closedz_weaken_np g ops : closedz true g ops = true -> closedz false g ops = true.
Proof.
  revert g. induction ops as [|o r IH]; intros g; cbn [closedz negb orb andb]; [auto|].
  intros C. apply andb_true_iff in C. destruct C as [_ C]. revert C.
  destruct o as [| | |c m f| | | | | | | | |]; try apply IH; try (intros X; exact X).
  destruct f; apply IH.
Qed.

Lemma wfB_np_wfB b : wfB_np b = true -> wfB b = true.
Proof.
  unfold wfB_np, wfB, wfB_gen, wfB_genz. intros W.
  repeat (apply andb_true_iff in W; destruct W as [W ?]).
  repeat (apply andb_true_iff; split); try assumption.
  rewrite forallb_forall in *. intros ops Ho. apply closedz_weaken_np. now apply H0.
Qed.

(* whatever the schedule (with or without pauses after releases and at call boundaries): if no thread's code panics, no
   Poisonable is ever poisoned — every poison flag is clear in every reachable state *)
Theorem every_schedule_no_panic_no_poison yr pb b sched p :
  wfB_np b = true ->
  let sc := bs_sc b in
  w_psn (b_w (fst (run_sched_g false yr pb (bs_wp b) (sc_env sc) (sc_nlocks sc) (binit b) sched))) p = false.
Proof.
  intros W sc.
  assert (PZ : true = false -> False) by discriminate.
  pose proof (reach_GI_decz (fun _ => rank_ok (sc_nlocks sc) (rk_of sc)) (fun _ => rank_okb (sc_nlocks sc) (rk_of sc))
                            (fun _ H l => rank_okb_ok _ _ H l) yr pb true False PZ b sched W) as G.
  exact (proj2 (proj2 (proj2 (gi_clean _ _ _ _ _ _ G))) (fun x => x) p).
Qed.

(* ---------------------------------------------------------------- C06 on every schedule: a key that is in use is not obtainable *)
(* at every call boundary of every schedule: if the thread's key is in its hand or inside its live guard, the thread-local
   flag is set — ThreadKey::get() on that thread returns None, so no second key can come into existence *)
Theorem every_schedule_key_in_use_flag_set b sched t o k out :
  wfB b = true ->
  let sc := bs_sc b in
  let s := fst (run_sched_g false false true (bs_wp b) (sc_env sc) (sc_nlocks sc) (binit b) sched) in
  let th := get_thr (b_thr s) t in
  th_over th = false -> th_cur th = Some (o, Op bpause_op k) -> k (VBool false) = term_of out ->
  (match out with ODone _ | OPanic => True | _ => False end) ->
  let lc' := fst (api_fin (sc_env sc) (th_loc th) o out) in
  haskey lc' = true \/ guard lc' <> None ->
  w_keyf (b_w s) t = true.
Proof.
  intros W sc s th OV CU KE OK lc' HG.
  destruct (every_schedule_call_boundary b sched t o k out W OV CU KE OK) as [H [K [A [T _]]]].
  fold sc in T. fold s in T. fold th in T. fold lc' in T.
  destruct A as [_ [_ AK]]. subst s sc. rewrite AK. unfold TB in T.
  destruct (guard lc') as [g|] eqn:G.
  - destruct T as [_ [_ E]]. exact E.
  - destruct T as [_ E]. destruct HG as [HK|NG]; [now apply E|contradiction].
Qed.

(* ---------------------------------------------------------------- who can wait at all (C04, C17 on every schedule) *)
(* in every state of every schedule, a thread that is parked on a blocking raw acquisition is inside a BLOCKING acquisition
   call (lock / read / write, scoped_lock / scoped_read): a try_* or scoped_try_* call never waits, and neither does any
   call that is not an acquisition (key operations, guard accesses, drops and unlocks, panics, is_poisoned, clear_poison,
   Debug formatting) *)
Theorem every_schedule_only_blocking_acquisitions_wait b sched t k l :
  wfB b = true ->
  let sc := bs_sc b in
  let s := fst (run_sched (bs_wp b) (sc_env sc) (sc_nlocks sc) (binit b) sched) in
  parked (get_thr (b_thr s) t) = Some (ORaw k l) -> rop_blocking k = true ->
  exists c m f p, th_cur (get_thr (b_thr s) t) = Some (AAcquire c m f, p) /\ blocking_flavour f = true.
Proof.
  intros W sc s PK BL.
  pose proof (reach_GI_dec (fun _ => rank_ok (sc_nlocks sc) (rk_of sc)) (fun _ => rank_okb (sc_nlocks sc) (rk_of sc))
                           (fun _ H l => rank_okb_ok _ _ H l) false false b sched W) as G.
  destruct (GI_blocked b _ _ _ _ _ t k l G PK BL) as [H [K [o [p [A [CU B]]]]]].
  destruct o as [| | |c m f| | | | | | | | |]; cbn [blk_of] in B; try contradiction.
  exists c, m, f, p. split; [exact CU|]. destruct (blocking_flavour f); [reflexivity|contradiction].
Qed.
