(* Pf_Calls.v — call-level theorems about the API in fault-free worlds, assembled from the lemma files;
   used by Prop_C03 / C04 / C05 / C10 / C11 / C17. *)
From HL Require Import Base Model Shape Algo Api OpsLemmas Lemmas ShapeLemmas ApiLemmas QuietLemmas Check Monitors.

Section Calls.
  Variables (t : tid) (m : mode) (am : addrmap) (s : shape).
  Hypothesis Ha : acquirable s = true.
  Hypothesis ND : NoDup (leaves s).

  (* lock / read / write on any lock, wrapper or collection kind: either every leaf is taken (each once,
     in the requested mode, on top of the table as it was) or the call waits *)
  Theorem raw_lock_all_or_wait fuel w :
    quiet w -> 2 <= fuel ->
    if can_all m (kleaves s) (w_raw w)
    then exists w', run nopw t (raw_lock fuel m (alg_of am s)) w = (ODone VUnit, w') /\
                    eff w w' (acq_all t m (kleaves s) (w_raw w))
    else exists w', run nopw t (raw_lock fuel m (alg_of am s)) w = (OBlocked, w').
  Proof.
    intros Q Hf. pose proof (alg_refs_leaves am s Ha) as Hp.
    assert (NDk : NoDup (locks_of (kleaves s))) by (rewrite <- leaves_kleaves; exact ND).
    assert (ND' : NoDup (locks_of (rsleaves (alg_refs (alg_of am s))))).
    { eapply Permutation_NoDup; [apply locks_of_perm; symmetry; exact Hp|exact NDk]. }
    rewrite <- (can_all_perm m _ _ (w_raw w) Hp).
    assert (X : if can_all m (rsleaves (alg_refs (alg_of am s))) (w_raw w)
                then exists w', run nopw t (raw_lock fuel m (alg_of am s)) w = (ODone VUnit, w') /\
                                eff w w' (acq_all t m (rsleaves (alg_refs (alg_of am s))) (w_raw w))
                else exists w', run nopw t (raw_lock fuel m (alg_of am s)) w = (OBlocked, w')).
    { destruct (alg_of am s) as [k l|rs|rs|]; cbn [raw_lock alg_refs] in *.
      - pose proof (run_rr_lock t m (RLeaf k l) w Q) as X. rewrite rsleaves_one in *. specialize (X ND').
        change (rr_lock m (RLeaf k l)) with (leaf_lock m k l) in X.
        destruct (can_all m (rleaves (RLeaf k l)) (w_raw w)); [destruct X as [w' [R [E _]]]; now exists w'|].
        destruct X as [w' [R _]]. now exists w'.
      - pose proof (run_ordered_lock t m rs w Q ND') as X.
        destruct (can_all m (rsleaves rs) (w_raw w)); [destruct X as [w' [R [E _]]]; now exists w'|].
        destruct X as [w' [R _]]. now exists w'.
      - pose proof (run_retry_lock t m rs ND' fuel w Hf Q) as X.
        destruct (can_all m (rsleaves rs) (w_raw w)); [exact X|]. destruct X as [w' [R _]]. now exists w'.
      - exists w. split; [reflexivity|apply eff_refl]. }
    destruct (can_all m (rsleaves (alg_refs (alg_of am s))) (w_raw w)); [|exact X].
    destruct X as [w' [R E]]. exists w'. split; [exact R|].
    eapply eff_ext; [exact E|]. intros x. apply acq_all_perm; assumption.
  Qed.

  (* try_lock / try_read: all or nothing, and never waits *)
  Theorem raw_try_all_or_nothing w :
    quiet w ->
    exists w', run nopw t (raw_try m (alg_of am s)) w = (ODone (VBool (can_all m (kleaves s) (w_raw w))), w') /\
               eff w w' (if can_all m (kleaves s) (w_raw w) then acq_all t m (kleaves s) (w_raw w) else w_raw w) /\
               exists evs, w_trace w' = evs ++ w_trace w /\ Forall nb_ev evs.
  Proof.
    intros Q. destruct (run_raw_try t m am s w Q Ha ND) as [w' [R E]].
    exists w'. split; [exact R|]. split; [exact E|].
    eapply (run_nonblocking nopw t); [|exact R].
    eapply ops_in_weaken; [apply nbalg_nbop|apply raw_try_nb].
  Qed.

  (* a whole scoped call: acquisition, closure exactly under the hold, release, key *)
  Theorem scoped_call_quiet fuel lent body w :
    quiet w -> 2 <= fuel -> can_all m (kleaves s) (w_raw w) = true ->
    exists w',
      run nopw t (scoped_rest m s (alg_of am s) lent body (raw_lock fuel m (alg_of am s))) w =
        ((if existsb is_cpanic body then OPanic else ODone (VNat 0)), w') /\
      effp w w' (w_raw w) (match root_poison s with
                           | Some p => if existsb is_cpanic body then upd (w_psn w) p true else w_psn w
                           | None => w_psn w
                           end) /\
      w_keyf w' t = (if lent then w_keyf w t else false) /\
      (forall x, x <> t -> w_keyf w' x = w_keyf w x) /\
      (* the trace: the acquisition (ending with every leaf held), the closure-entry marker, user events, and then
         neither an acquisition nor a marker *)
      exists w1 w2 evR,
        run nopw t (raw_lock fuel m (alg_of am s)) w = (ODone VUnit, w1) /\
        eff w w1 (acq_all t m (kleaves s) (w_raw w)) /\
        run nopw t (closure m (gitems s) body) w1 = ((if existsb is_cpanic body then OPanic else ODone VUnit), w2) /\
        frame (emit w1 (EMark t 1)) w2 /\ w_trace w' = evR ++ w_trace w2 /\ Forall tail_ev evR.
  Proof.
    intros Q Hf Can. pose proof (raw_lock_all_or_wait fuel w Q Hf) as L. rewrite Can in L.
    destruct L as [w1 [R1 E1]].
    destruct (run_scoped_rest_quiet t m am s lent body Ha ND _ w VUnit w1 (w_raw w) Q R1) as [w' [R [E [K1 [K2 [w2 [evR [Rc [F [T Ft]]]]]]]]]].
    - apply eff_effp. exact E1.
    - apply (eff_keyf _ _ _ E1).
    - exact Can.
    - exists w'. split; [exact R|]. split; [exact E|]. split; [exact K1|]. split; [exact K2|].
      exists w1, w2, evR. repeat (split; [assumption|]). assumption.
  Qed.
End Calls.

(* Debug formatting of any lock / collection: never waits, leaves every hold as it was *)
Lemma fmt_list_nb ls : forall acc, ops_in nbop (fmt_list acc ls).
Proof.
  induction ls as [|[k l] r IH]; intros acc; simpl; [constructor|].
  constructor; [|intros v; apply IH].
  unfold fmt_leaf. constructor; [eapply ops_in_weaken; [apply nbalg_nbop|apply leaf_try_nb]|].
  intros v. destruct (vtrue v); [|constructor].
  apply ops_in_then; [apply ops_in_op_; exact I|].
  apply ops_in_then; [eapply ops_in_weaken; [apply nbalg_nbop|apply leaf_unlock_nb]|constructor].
Qed.

Theorem fmt_quiet t s w :
  quiet w ->
  exists n w', run nopw t (fmt_list 0 (fmt_leaves s)) w = (ODone (VNat n), w') /\ eff w w' (w_raw w) /\
               exists evs, w_trace w' = evs ++ w_trace w /\ Forall nb_ev evs.
Proof.
  intros Q. destruct (run_fmt_list t (fmt_leaves s) 0 w Q) as [n [w' [R E]]].
  exists n, w'. split; [exact R|]. split; [exact E|].
  eapply (run_nonblocking nopw t); [apply fmt_list_nb|exact R].
Qed.

(* and in ANY world (held by anyone, faults or not) formatting never waits *)
Theorem fmt_never_waits pw t s w out w' :
  run pw t (fmt_list 0 (fmt_leaves s)) w = (out, w') ->
  out <> OBlocked /\ exists evs, w_trace w' = evs ++ w_trace w /\ Forall nb_ev evs.
Proof. apply run_nonblocking. apply fmt_list_nb. Qed.

(* a panic with a live guard: every hold released once, every wrapper in the guard poisoned, key dropped *)
Theorem guard_panic_quiet t m items w :
  quiet w -> NoDup (locks_of (gleaves items)) -> held_all t m (gleaves items) (w_raw w) = true ->
  exists w1,
    run nopw t (Bind (with_key true true (drop_items m true items)) (fun _ => Throw)) w =
      (OPanic, set_keyf w1 t false) /\
    effp w w1 (rel_all t m (gleaves items) (w_raw w)) (set_psn_all (w_psn w) (gpoisons items)).
Proof.
  intros Q ND H. destruct (run_drop_items_unw t m items w Q ND H) as [w1 [R E]].
  exists w1. split; [|exact E].
  rewrite run_bind. rewrite (run_with_key_done _ _ _ _ _ _ _ _ R). reflexivity.
Qed.

(* ---------------------------------------------------------------- C10: a call that returns normally poisons nothing *)
Definition npsn (o : op) : Prop := match o with OPoison _ | OClearPoison _ => False | _ => True end.

Lemma alg_npsn p : ops_in alg_op p -> guarded npsn p.
Proof. intros H. apply guarded_ops. eapply ops_in_weaken; [|exact H]. intros o; destruct o; simpl; tauto. Qed.

Lemma drop_items_guarded m items : guarded npsn (drop_items m false items).
Proof.
  induction items as [|[k l|p] r IH]; simpl; [constructor| |].
  - apply guarded_then; [|exact IH]. constructor. apply alg_npsn, leaf_unlock_ops.
  - apply guarded_then; [constructor|exact IH].
Qed.

Lemma see_all_npsn ps : guarded npsn (see_all ps).
Proof. apply guarded_ops. unfold see_all. apply ops_in_seqs_map. intros. apply ops_in_op_. exact I. Qed.

Lemma poison_result_npsn s : guarded npsn (poison_result s).
Proof. unfold poison_result. destruct (root_poison s); [|constructor]. constructor; [exact I|]. intros. constructor. Qed.

Lemma closure_npsn m items body : guarded npsn (closure m items body).
Proof.
  apply guarded_ops. unfold closure. apply ops_in_then; [apply ops_in_op_; exact I|].
  apply ops_in_then; [unfold see_all; apply ops_in_seqs_map; intros; apply ops_in_op_; exact I|].
  apply ops_in_seqs_map. intros c. destruct c; simpl.
  - destruct (nth_leaf items pos) as [[k l]|]; [apply ops_in_op_; exact I|constructor].
  - destruct m; [constructor|]. destruct (nth_leaf items pos) as [[k l]|]; [apply ops_in_op_; exact I|constructor].
  - constructor.
  - apply ops_in_op_. exact I.
Qed.

Lemma with_key_guarded dp dd body : guarded npsn body -> guarded npsn (with_key dp dd body).
Proof.
  intros H. unfold with_key. constructor; [constructor; exact H|].
  intros v. apply guarded_then; [|constructor]. destruct dd; [apply guarded_ops, ops_in_op_; exact I|constructor].
Qed.

Lemma scoped_rest_guarded m s a lent body acq :
  guarded npsn acq -> guarded npsn (scoped_rest m s a lent body acq).
Proof.
  intros H. unfold scoped_rest. destruct (root_poison s).
  - constructor; [|intros; constructor]. apply with_key_guarded.
    apply guarded_then; [exact H|]. apply guarded_then; [constructor; apply closure_npsn|apply alg_npsn, raw_unlock_ops].
  - constructor; [|intros; apply guarded_then; [apply alg_npsn, raw_unlock_ops|constructor]].
    apply with_key_guarded. apply guarded_then; [exact H|]. constructor. apply closure_npsn.
Qed.

Lemma fmt_list_npsn ls : forall acc, guarded npsn (fmt_list acc ls).
Proof.
  induction ls as [|[k l] r IH]; intros acc; simpl; [constructor|].
  constructor; [|intros v; apply IH].
  unfold fmt_leaf. constructor; [apply alg_npsn, leaf_try_ops|].
  intros v. destruct (vtrue v); [|constructor].
  apply guarded_then; [apply guarded_ops, ops_in_op_; exact I|].
  apply guarded_then; [apply alg_npsn, leaf_unlock_ops|constructor].
Qed.

(* every API call other than APanic (which never returns) and clear_poison *)
Lemma api_prog_guarded e lc o p :
  api_prog e lc o = Some p -> o <> APanic -> (forall c, o <> AClearPoison c) -> guarded npsn p.
Proof.
  intros Hp Hn Hc. destruct o; cbn [api_prog] in Hp.
  - inversion Hp; subst. constructor; [exact I|intros; constructor].
  - destruct (haskey lc); inversion Hp; subst. apply guarded_ops, ops_in_op_. exact I.
  - destruct (haskey lc); inversion Hp; subst. constructor.
  - destruct (coll e c) as [s|]; [|discriminate]. destruct (haskey lc); [|discriminate].
    destruct f; inversion Hp; subst; clear Hp.
    + apply with_key_guarded. apply guarded_then; [apply alg_npsn, raw_lock_ops|].
      apply guarded_then; [apply see_all_npsn|apply poison_result_npsn].
    + apply with_key_guarded. constructor; [apply alg_npsn, raw_try_ops|].
      intros v. destruct (vtrue v); [|constructor]. apply guarded_then; [apply see_all_npsn|apply poison_result_npsn].
    + apply scoped_rest_guarded. apply alg_npsn, raw_lock_ops.
    + constructor; [apply with_key_guarded, alg_npsn, raw_try_ops|].
      intros v. destruct (vtrue v); [|constructor]. apply scoped_rest_guarded. constructor.
  - destruct (guard lc); inversion Hp; subst. apply with_key_guarded, drop_items_guarded.
  - destruct (guard lc); inversion Hp; subst. apply with_key_guarded, drop_items_guarded.
  - destruct (guard lc); inversion Hp; subst. constructor.
  - destruct (guard lc) as [g|]; inversion Hp; subst. apply guarded_ops. destruct (nth_leaf (g_items g) pos) as [[k l]|]; [apply ops_in_op_; exact I|constructor].
  - destruct (guard lc) as [g|]; inversion Hp; subst. apply guarded_ops.
    destruct (g_mode g); [constructor|]. destruct (nth_leaf (g_items g) pos) as [[k l]|]; [apply ops_in_op_; exact I|constructor].
  - contradiction.
  - destruct (coll e c) as [[]|]; inversion Hp; subst. constructor; [exact I|intros; constructor].
  - exfalso. apply (Hc c). reflexivity.
  - destruct (coll e c); inversion Hp; subst. apply fmt_list_npsn.
Qed.

Theorem no_panic_no_poison e lc o p pw t w v w' :
  api_prog e lc o = Some p -> o <> APanic -> (forall c, o <> AClearPoison c) ->
  run pw t p w = (ODone v, w') -> forall x, w_psn w' x = w_psn w x.
Proof.
  intros Hp Hn Hc R.
  apply (run_guarded_done pw t npsn (fun a b => forall x, w_psn b x = w_psn a x)) with (p := p) (v := v); auto.
  - intros a b c H1 H2 x. rewrite H2. apply H1.
  - intros o0 w0 Ho. destruct o0; simpl in Ho; try destruct Ho; simpl; auto.
    destruct (faulty w0 k l); auto. destruct (raw_apply t k (w_raw w0 l) (pw l)); simpl; auto.
  - eapply api_prog_guarded; eauto.
Qed.
