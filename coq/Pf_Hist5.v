(* Pf_Hist5.v — C05 over whole histories (partial, see Prop_C05.v): in every fault-free history no call that runs to
   its end ever releases a lock its thread does not hold; dropping or unlocking a guard releases every hold of that
   guard exactly once and nothing else; and when no guard is alive or leaked, every lock is exactly as it was at the
   start. *)
From HL Require Import Base Model Shape Algo Api OpsLemmas Lemmas ShapeLemmas ApiLemmas QuietLemmas Pf_Calls Check Monitors
  Pf_C06 Pf_C13 NoRel Pf_Acct Pf_Hist.

(* ---------------------------------------------------------------- multisets of naturals *)
Lemma length_remove1 x l : memb x l = true -> S (length (remove1 x l)) = length l.
Proof.
  induction l as [|y r IH]; simpl; [discriminate|].
  destruct (Nat.eqb_spec x y) as [->|Hn]; simpl; [reflexivity|]. intros H. now rewrite IH.
Qed.

Lemma count_eq_length a : forall b, (forall x, count x a = count x b) -> length a = length b.
Proof.
  induction a as [|x a IH]; intros b H.
  - destruct b as [|y b']; [reflexivity|]. pose proof (H y) as Hy. simpl in Hy. rewrite Nat.eqb_refl in Hy. discriminate.
  - assert (Mb : memb x b = true).
    { rewrite memb_count. specialize (H x). simpl in H. rewrite Nat.eqb_refl in H. rewrite <- H. reflexivity. }
    simpl. rewrite <- (length_remove1 x b Mb). f_equal. apply IH. intros y. rewrite count_remove1, Mb, andb_true_r.
    pose proof (H y) as Hy. simpl in Hy. destruct (Nat.eqb y x); simpl; lia.
Qed.

Lemma count_NoDup x l : NoDup l -> count x l = if memb x l then 1 else 0.
Proof.
  induction 1 as [|y r Hn ND IH]; simpl; [reflexivity|].
  destruct (Nat.eqb_spec x y) as [->|Hxy]; simpl.
  - rewrite IH. destruct (memb y r) eqn:E; [apply memb_In in E; contradiction|reflexivity].
  - exact IH.
Qed.

(* ---------------------------------------------------------------- release events *)
Definition is_rel_ev (e : ev) : bool := match e with ERaw _ k _ _ => is_rel_rop k | _ => false end.
Definition ev_lock (e : ev) : lock := match e with ERaw _ _ l _ => l | _ => 0 end.

(* a program made of releases (and non-raw operations) acquires nothing *)
Definition relonly (o : op) : Prop := match o with ORaw k _ => is_acq_rop k = false | _ => True end.
Definition no_acq_ev (e : ev) : Prop := match e with ERaw _ k _ _ => is_acq_rop k = false | _ => True end.

Lemma run_relonly pw t p w out w' :
  ops_in relonly p -> run pw t p w = (out, w') ->
  exists evs, w_trace w' = evs ++ w_trace w /\ Forall no_acq_ev evs.
Proof.
  intros Ho R.
  destruct (run_ops_inv pw t relonly (fun _ => True) no_acq_ev) with (p := p) (w := w) (out := out) (w' := w') as [_ H]; auto.
  intros o w1 Ao _. destruct o; simpl in Ao |- *; try (split; [exact I|exists []; split; [reflexivity|constructor]]);
    try (split; [exact I|eexists [_]; split; [reflexivity|repeat constructor]]).
  destruct (faulty w1 k l); [split; [exact I|eexists [_]; split; [reflexivity|repeat constructor; exact Ao]]|].
  destruct (raw_apply t k (w_raw w1 l) (pw l)); (split; [exact I|eexists [_]; split; [reflexivity|repeat constructor; exact Ao]]).
Qed.

Lemma acquires_none l evs : Forall no_acq_ev evs -> acquires_of l evs = 0.
Proof.
  induction 1 as [|e r He Hr IH]; [reflexivity|]. unfold acquires_of in *. cbn [filter].
  destruct e as [t0 k l0 r0| | | |]; try exact IH. simpl in He. rewrite He. cbn [andb]. destruct r0 as [| b | | |]; try exact IH. destruct b; exact IH.
Qed.

Lemma drop_items_relonly m unw items : ops_in relonly (drop_items m unw items).
Proof.
  revert unw. induction items as [|[k l|p] r IH]; intros unw; simpl; [constructor| |].
  - assert (L : ops_in relonly (leaf_unlock m k l)).
    { unfold leaf_unlock. constructor; apply ops_in_op_; simpl; [destruct k, m; reflexivity|exact I]. }
    destruct unw; apply ops_in_then; auto; constructor; auto; constructor.
  - apply ops_in_then; [|apply IH]. destruct unw; [apply ops_in_op_; exact I|constructor].
Qed.

Lemma with_key_relonly dp dd body : ops_in relonly body -> ops_in relonly (with_key dp dd body).
Proof.
  intros H. unfold with_key. constructor.
  - constructor; [exact H|]. destruct dp; [apply ops_in_op_; exact I|constructor].
  - intros v. apply ops_in_then; [|constructor]. destruct dd; [apply ops_in_op_; exact I|constructor].
Qed.

(* the locks of the release events of a trace, as a list *)
Definition rel_locks (evs : list ev) : list lock := map ev_lock (filter is_rel_ev evs).

Lemma releases_of_count l evs :
  Forall clean_ev evs -> Forall rel_res_ok evs -> releases_of l evs = count l (rel_locks evs).
Proof.
  unfold releases_of, rel_locks. induction evs as [|e r IH]; intros C Rr; [reflexivity|].
  inversion C as [|? ? Ce Cr]; inversion Rr as [|? ? Re Rrr]; subst. specialize (IH Cr Rrr). cbn [filter].
  destruct e as [t0 k l0 r0| | | |]; cbn [is_rel_ev]; try exact IH.
  destruct (is_rel_rop k) eqn:K; cbn [andb].
  - cbn [map ev_lock count]. simpl in Re. destruct (Re K) as [-> | [-> | ->]]; simpl in Ce; try contradiction.
    destruct (Nat.eqb l l0); cbn [length]; lia.
  - destruct r0; exact IH.
Qed.

(* ---------------------------------------------------------------- the judge proved for every history *)
Definition judge_C05p (sc : scen) (ms : tid -> mthread) (prev : list rawst) (t : tid) (o : apiop) (co : callobs) : bool :=
  let r := co_ret co in
  (if stop_code r then true else negb (existsb ev_bad (co_evs co))) &&
  (match o, r with
   | (AGuardDrop | AGuardUnlock), ROk =>
       let gl := guard_leaves sc (mt_guard (ms t)) in
       forallb (fun l => Nat.eqb (releases_of l (co_evs co)) 1) gl &&
       Nat.eqb (length (filter (fun e => match e with ERaw _ k _ _ => is_rel_rop k | _ => false end) (co_evs co)))
               (length gl) &&
       negb (existsb (fun l => holds_by t (nth l (co_holds co) raw_free)) gl)
   | AAcquire c _ (FScoped _ _ | FScopedTry _ _), (ROk | RPanicked) =>
       forallb (fun l => Nat.eqb (releases_of l (co_evs co)) 1) (leaves (shape_of sc c))
   | _, _ => true
   end).

(* the full judge of the check implies it *)
Lemma judge_C05_implies_partial sc ms prev t o co : judge_C05 sc ms prev t o co = true -> judge_C05p sc ms prev t o co = true.
Proof.
  unfold judge_C05, judge_C05p. intros H. apply andb_true_iff in H. destruct H as [H1 H2].
  apply andb_true_iff. split.
  - destruct (stop_code (co_ret co)); [reflexivity|exact H1].
  - exact H2.
Qed.

Lemma hc_not_holding t s : holds_by t s = false -> hc t s = 0.
Proof.
  unfold holds_by, hc. intros H. apply orb_false_iff in H. destruct H as [H1 H2]. rewrite H1.
  rewrite memb_count in H2. apply negb_false_iff, Nat.eqb_eq in H2. lia.
Qed.

Lemma hc_held_once t k m s : wf_rawst s -> count t (readers s) <= 1 -> held1 t k m s = true -> hc t s = 1.
Proof.
  unfold wf_rawst, held1, hc. destruct s as [wr rd]. cbn [writer readers]. intros W C H. destruct (shared k m).
  - rewrite memb_count in H. apply negb_true_iff, Nat.eqb_neq in H.
    unfold writer_is. cbn [writer]. destruct wr as [u|]; [rewrite W in H by discriminate; simpl in H; congruence|]. lia.
  - unfold writer_is in *. cbn [writer] in *. destruct wr as [u|]; [|discriminate]. rewrite H, W by discriminate. reflexivity.
Qed.

Lemma no_bad_rev evs : Forall clean_ev evs -> existsb ev_bad (rev evs) = false.
Proof.
  intros H. apply Forall_rev in H. induction H as [|e r He Hr IH]; [reflexivity|]. cbn [existsb]. rewrite IH, orb_false_r.
  destruct e as [t0 k l0 r0| | | |]; try reflexivity. destruct r0; try reflexivity. destruct He.
Qed.

Lemma filter_rev_length {A} (f : A -> bool) l : length (filter f (rev l)) = length (filter f l).
Proof.
  induction l as [|x r IH]; [reflexivity|]. cbn [rev]. rewrite filter_app, app_length, IH. cbn [filter].
  destruct (f x); cbn [length]; lia.
Qed.

Lemma nth_snapshot_not_held1 t nl w l :
  holds_by t (w_raw w l) = false -> holds_by t (nth l (snapshot_holds nl w) raw_free) = false.
Proof.
  intros H. destruct (Nat.lt_ge_cases l nl) as [Hl|Hl].
  - now rewrite nth_snapshot_holds.
  - rewrite nth_overflow; [reflexivity|]. unfold snapshot_holds. now rewrite map_length, seq_length.
Qed.

(* dropping / unlocking a guard: every hold of the guard released exactly once, nothing else released *)
Lemma guard_release_counts sc h ms t p m items w' out :
  wf_hist sc -> qinv sc h ms -> real sc t -> guard (h_loc h t) = Some (mkg m items) ->
  ops_in relonly p ->
  run nopw t p (clear_trace (h_w h)) = (out, w') ->
  (forall x, w_raw w' x = rel_all t m (gleaves items) (w_raw (h_w h)) x) ->
  (exists evs, w_trace w' = evs ++ [] /\ Forall clean_ev evs) ->
  let gl := guard_leaves sc (mt_guard (ms t)) in
  forallb (fun l => Nat.eqb (releases_of l (rev (w_trace w'))) 1) gl = true /\
  length (filter (fun e => match e with ERaw _ k _ _ => is_rel_rop k | _ => false end) (rev (w_trace w'))) = length gl /\
  forall l, In l gl -> holds_by t (w_raw w' l) = false.
Proof.
  intros W Q Rt G Hrel Rn Hraw [evc [Tc Fc]] gl.
  destruct (qi_guard _ _ _ Q t m items G) as [_ [ND [Hh [c [MG Hi]]]]].
  assert (Egl : gl = locks_of (gleaves items)).
  { unfold gl, guard_leaves. rewrite MG. rewrite leaves_kleaves, Hi, gleaves_gitems. reflexivity. }
  destruct (run_acct nopw t _ _ _ _ Rn) as [evs [T [Fb Hacc]]]. cbn [clear_trace w_trace] in T.
  destruct (run_rel_res nopw t _ _ _ _ Rn) as [evr [Tr Fr]]. cbn [clear_trace w_trace] in Tr.
  destruct (run_relonly nopw t _ _ _ _ Hrel Rn) as [eva [Ta Fa]].
  cbn [clear_trace w_trace] in Ta.
  rewrite app_nil_r in T, Tc, Tr, Ta. rewrite T in Tc, Tr, Ta. subst evc evr eva. rewrite T.
  assert (Hin : forall l, In l gl -> releases_of l evs = 1 /\ holds_by t (w_raw w' l) = false).
  { intros l Hl. rewrite Egl in Hl.
    assert (Hf : holds_by t (w_raw w' l) = false).
    { rewrite Hraw. apply holds_by_rel_all_self; auto; [apply (qi_wf _ _ _ Q)|intros x; now apply (qi_cnt _ _ _ Q)]. }
    split; [|exact Hf]. specialize (Hacc l). rewrite (hc_not_holding _ _ Hf), (acquires_none l evs Fa) in Hacc.
    destruct (in_locks_of _ _ Hl) as [k Hk].
    cbn [clear_trace w_raw] in Hacc.
    rewrite (hc_held_once t k m (w_raw (h_w h) l)) in Hacc; [lia|apply (qi_wf _ _ _ Q)|now apply (qi_cnt _ _ _ Q)|].
    eapply held_all_in; eauto. }
  assert (Hout : forall l, ~ In l gl -> releases_of l evs = 0).
  { intros l Hl. rewrite Egl in Hl. specialize (Hacc l). rewrite (acquires_none l evs Fa), Hraw, rel_all_other in Hacc by exact Hl.
    cbn [clear_trace w_raw] in Hacc. lia. }
  split; [|split].
  - apply forallb_forall. intros l Hl. rewrite releases_of_rev. destruct (Hin l Hl) as [-> _]. reflexivity.
  - rewrite filter_rev_length. change (fun e : ev => match e with ERaw _ k _ _ => is_rel_rop k | _ => false end) with is_rel_ev.
    rewrite <- (map_length ev_lock). fold (rel_locks evs). apply count_eq_length. intros x.
    rewrite <- (releases_of_count x evs Fc Fr). rewrite Egl at 1. rewrite (count_NoDup x _ ND). rewrite <- Egl.
    destruct (memb x gl) eqn:Mx.
    + apply memb_In in Mx. now destruct (Hin x Mx).
    + apply Hout. intros Hx. apply memb_In in Hx. congruence.
  - intros l Hl. now destruct (Hin l Hl).
Qed.


(* ---------------------------------------------------------------- a scoped call releases each of its leaves exactly once *)
Lemma rop_rel_is k : rop_rel k = is_rel_rop k.
Proof. destruct k; reflexivity. Qed.
Lemma rop_acq_is k : rop_acq k = is_acq_rop k.
Proof. destruct k; reflexivity. Qed.

Lemma releases_norel l evs : Forall norel_ev evs -> releases_of l evs = 0.
Proof.
  induction 1 as [|e r He Hr IH]; [reflexivity|]. unfold releases_of in *. cbn [filter].
  destruct e as [t0 k l0 r0| | | |]; try exact IH. simpl in He. rewrite rop_rel_is in He. rewrite He. cbn [andb].
  destruct r0; exact IH.
Qed.

Lemma acquires_tail l evs : Forall tail_ev evs -> acquires_of l evs = 0.
Proof.
  induction 1 as [|e r He Hr IH]; [reflexivity|]. unfold acquires_of in *. cbn [filter].
  destruct e as [t0 k l0 r0| | | |]; try exact IH. simpl in He. rewrite rop_acq_is in He. rewrite He. cbn [andb].
  destruct r0 as [|b| | |]; try exact IH. destruct b; exact IH.
Qed.

Lemma acquires_uev l evs : Forall uev evs -> acquires_of l evs = 0.
Proof.
  induction 1 as [|e r He Hr IH]; [reflexivity|]. unfold acquires_of in *. cbn [filter].
  destruct e; try exact IH. destruct He.
Qed.

Lemma scoped_release_counts sc t c m body w w' p out :
  scoped_shape sc t c m body w w' -> w_trace w = [] -> run nopw t p w = (out, w') ->
  (forall l, hc t (w_raw w l) = 0) -> (forall x, w_raw w' x = w_raw w x) ->
  can_all m (kleaves (shape_of sc c)) (w_raw w) = true -> NoDup (leaves (shape_of sc c)) ->
  forallb (fun l => Nat.eqb (releases_of l (rev (w_trace w'))) 1) (leaves (shape_of sc c)) = true.
Proof.
  intros [w1 [w2 [evA [evR [TA [NA [BA [RA [NR [HA [Hraw [_ [F [TR [FR _]]]]]]]]]]]]]]] Tw Rn H0 Hsame Can ND.
  destruct (fr_tr _ _ F) as [U [TU FU]]. cbn [emit w_trace] in TU.
  destruct (run_acct nopw t _ _ _ _ Rn) as [evs [T [_ Hacc]]]. rewrite Tw, app_nil_r in T.
  assert (Eevs : evs = evR ++ U ++ EMark t 1 :: evA).
  { rewrite <- T, TR, TU, TA, Tw, app_nil_r. reflexivity. }
  apply forallb_forall. intros l Hl. rewrite releases_of_rev, T.
  specialize (Hacc l). rewrite Hsame, H0 in Hacc. specialize (HA l). rewrite H0 in HA.
  rewrite (releases_norel l evA NR) in HA.
  assert (H1 : hc t (w_raw w1 l) = 1).
  { rewrite Hraw. rewrite leaves_kleaves in Hl, ND. destruct (in_locks_of _ _ Hl) as [k Hk].
    rewrite (acq_all_in t m _ _ k l ND Hk). apply hc_acq1; [|apply H0].
    unfold can_all in Can. rewrite forallb_forall in Can. apply (Can (k, l) Hk). }
  assert (Acq : acquires_of l evs = 1).
  { rewrite Eevs, !acquires_of_app. rewrite (acquires_tail l evR FR), (acquires_uev l U FU).
    change (EMark t 1 :: evA) with ([EMark t 1] ++ evA). rewrite acquires_of_app. cbn. unfold lock, tid in *. lia. }
  apply Nat.eqb_eq. unfold lock, tid in *. lia.
Qed.

(* ---------------------------------------------------------------- one history step, exposed *)
Lemma hstep_cases sc nl np h ms t o :
  wf_hist sc -> qinv sc h ms -> In (t, o) (sc_hist sc) ->
  (api_prog (sc_env sc) (h_loc h t) o = None /\
   hstep (sc_env sc) nl np h (t, o) =
     (h, [mkco t RSkipped [] (snapshot_holds nl (h_w h)) (snapshot_psn np (h_w h)) (negb (w_keyf (h_w h) t))])) \/
  (exists p out w',
     api_prog (sc_env sc) (h_loc h t) o = Some p /\
     run nopw t p (clear_trace (h_w h)) = (out, w') /\
     call_out sc t (h_loc h t) o (clear_trace (h_w h)) out w' /\
     hstep (sc_env sc) nl np h (t, o) =
       (mkh w' (upd (h_loc h) t (fst (api_fin (sc_env sc) (h_loc h t) o out))) (stops (snd (api_fin (sc_env sc) (h_loc h t) o out))),
        [mkco t (snd (api_fin (sc_env sc) (h_loc h t) o out)) (rev (w_trace w')) (snapshot_holds nl w') (snapshot_psn np w')
              (negb (w_keyf w' t))])).
Proof.
  intros W Q Hin. destruct (api_prog (sc_env sc) (h_loc h t) o) as [p|] eqn:Hp.
  - right. destruct (run nopw t p (clear_trace (h_w h))) as [out w'] eqn:Rn. exists p, out, w'.
    split; [reflexivity|]. split; [exact Rn|]. split.
    + apply (call_Q sc t (h_loc h t) o p _ out w' (quiet_clear _ (qi_quiet _ _ _ Q)) (wh_fuel _ W)
               (qinv_guard_ok _ _ _ t Q) (wf_hist_coll_ok _ _ _ W Hin) Hp Rn).
    + apply (hstep_some _ nl np h t o p out w' (qi_stop _ _ _ Q) Hp Rn).
  - left. split; [reflexivity|]. apply (hstep_none _ nl np h t o (qi_stop _ _ _ Q) Hp).
Qed.

Lemma step_C05p sc nl np h ms t o h' co :
  wf_hist sc -> qinv sc h ms -> In (t, o) (sc_hist sc) ->
  hstep (sc_env sc) nl np h (t, o) = (h', [co]) ->
  judge_C05p sc ms (snapshot_holds nl (h_w h)) t o co = true.
Proof.
  intros W Q Hin St. pose proof (real_in _ _ _ Hin) as Rt.
  destruct (hstep_cases sc nl np h ms t o W Q Hin) as [[Hp E]|[p [out [w' [Hp [Rn [CO E]]]]]]]; rewrite E in St; inversion St; subst h' co; clear St E.
  - unfold judge_C05p. cbn [co_ret co_evs stop_code existsb negb andb]. destruct o as [| | |c m f| | | | | | | | |]; try reflexivity. destruct f; reflexivity.
  - unfold judge_C05p. cbn [co_ret co_evs co_holds].
    set (lc := h_loc h t) in *. set (rc := snd (api_fin (sc_env sc) lc o out)) in *.
    apply andb_true_iff. split.
    + destruct (stop_code rc) eqn:Sc; [reflexivity|].
      destruct (cq_clean _ _ _ _ _ _ _ CO Sc) as [evs [T F]]. cbn [clear_trace w_trace] in T. rewrite app_nil_r in T.
      rewrite T. now rewrite no_bad_rev.
    + assert (Main : forall dd m items, guard lc = Some (mkg m items) ->
                p = with_key true dd (drop_items m false items) ->
                (forall x, w_raw w' x = rel_all t m (gleaves items) (w_raw (h_w h)) x) -> rc = ROk ->
                let gl := guard_leaves sc (mt_guard (ms t)) in
                forallb (fun l => Nat.eqb (releases_of l (rev (w_trace w'))) 1) gl &&
                Nat.eqb (length (filter (fun e => match e with ERaw _ k _ _ => is_rel_rop k | _ => false end) (rev (w_trace w')))) (length gl) &&
                negb (existsb (fun l => holds_by t (nth l (snapshot_holds nl w') raw_free)) gl) = true).
      { intros dd m items G -> Hraw Hrc gl.
        assert (Sc : stop_code rc = false) by (rewrite Hrc; reflexivity).
        destruct (guard_release_counts sc h ms t _ m items w' out W Q Rt G (with_key_relonly true dd _ (drop_items_relonly m false items)) Rn Hraw (cq_clean _ _ _ _ _ _ _ CO Sc)) as [A [B C]].
        fold gl in A, B, C. rewrite A, B, Nat.eqb_refl. cbn [andb]. apply negb_true_iff.
        apply not_true_is_false. intros X. apply existsb_exists in X. destruct X as [l [Hl Hh]].
        rewrite nth_snapshot_not_held1 in Hh; [discriminate|]. now apply C. }
      destruct o as [| | |c m f| | | | | | | | |]; try reflexivity.
      * (* AAcquire: scoped calls *)
        assert (Sc : forall lent body, (f = FScoped lent body \/ f = FScopedTry lent body) -> (rc = ROk \/ rc = RPanicked) ->
                  forallb (fun l => Nat.eqb (releases_of l (rev (w_trace w'))) 1) (leaves (shape_of sc c)) = true).
        { intros lent body Hf Hrc.
          assert (IS : is_scoped (AAcquire c m f) = Some (c, m, body)) by (destruct Hf as [-> | ->]; reflexivity).
          pose proof (cq_scoped _ _ _ _ _ _ _ CO c m body IS) as X. fold lc rc in X.
          assert (Sh : scoped_shape sc t c m body (clear_trace (h_w h)) w') by (destruct Hrc as [E|E]; rewrite E in X; exact X).
          assert (Stop : stop_code rc = false) by (destruct Hrc as [E|E]; rewrite E; reflexivity).
          pose proof (acq_haskey _ _ _ _ _ _ Hp) as Hk.
          assert (H0 : forall l, hc t (w_raw (clear_trace (h_w h)) l) = 0).
          { intros l. apply hc_not_holding. apply (haskey_holds_nothing sc h ms t Q Rt Hk). }
          destruct (wh_colls _ W t c m f Hin) as [s [Hn [Ha ND]]].
          assert (Hs : shape_of sc c = s) by (unfold shape_of; now rewrite Hn).
          apply (scoped_release_counts sc t c m body _ w' p out Sh eq_refl Rn H0).
          - intros x. rewrite (cq_raw _ _ _ _ _ _ _ CO Stop x). fold lc rc. destruct Hf as [-> | ->]; reflexivity.
          - (* the closure ran, so the acquisition had succeeded *)
            destruct (can_all m (kleaves (shape_of sc c)) (w_raw (clear_trace (h_w h)))) eqn:Cn; [reflexivity|]. exfalso.
            rewrite Hs in Cn. cbn [api_prog] in Hp. unfold coll in Hp. cbn [sc_env e_colls] in Hp. fold lc in Hk. rewrite Hn, Hk in Hp.
            destruct Hf as [-> | ->]; injection Hp as <-.
            + pose proof (raw_lock_all_or_wait t m (e_am (sc_env sc)) s Ha ND (e_fuel (sc_env sc)) _
                            (quiet_clear _ (qi_quiet _ _ _ Q)) (wh_fuel _ W)) as L. rewrite Cn in L. destruct L as [w1 R1].
              rewrite (run_scoped_rest_blocked _ _ _ _ _ _ _ _ _ R1) in Rn. inversion Rn; subst out w'.
              unfold rc in Hrc. cbn in Hrc. destruct Hrc; discriminate.
            + destruct (run_raw_try t m (e_am (sc_env sc)) s _ (quiet_clear _ (qi_quiet _ _ _ Q)) Ha ND) as [w1 [R1 _]].
              rewrite Cn in R1. pose proof (run_with_key_done nopw t (negb lent) false _ _ _ _ R1) as Rk. cbn iota in Rk.
              rewrite (run_bind_done _ _ _ _ _ _ _ Rk) in Rn. cbn in Rn. inversion Rn; subst out w'.
              unfold rc in Hrc. cbn in Hrc. destruct Hrc; discriminate.
          - now rewrite Hs. }
        destruct f as [| |lent body|lent body]; try reflexivity.
        -- destruct rc eqn:Erc; try reflexivity; apply (Sc lent body); auto.
        -- destruct rc eqn:Erc; try reflexivity; apply (Sc lent body); auto.
      * (* AGuardDrop *)
        destruct rc eqn:Erc; try reflexivity.
        cbn [api_prog] in Hp. fold lc in Hp. destruct (guard lc) as [[gm items]|] eqn:G; [|discriminate].
        injection Hp as Hp. cbn [g_mode g_items] in Hp.
        apply (Main true gm items eq_refl (eq_sym Hp)); [|reflexivity].
        intros x. assert (Sc : stop_code (snd (api_fin (sc_env sc) lc AGuardDrop out)) = false) by (fold rc; rewrite Erc; reflexivity).
        rewrite (cq_raw _ _ _ _ _ _ _ CO Sc x). cbn [raw_after]. rewrite G. reflexivity.
      * (* AGuardUnlock *)
        destruct rc eqn:Erc; try reflexivity.
        cbn [api_prog] in Hp. fold lc in Hp. destruct (guard lc) as [[gm items]|] eqn:G; [|discriminate].
        injection Hp as Hp. cbn [g_mode g_items] in Hp.
        apply (Main false gm items eq_refl (eq_sym Hp)); [|reflexivity].
        intros x. assert (Sc : stop_code (snd (api_fin (sc_env sc) lc AGuardUnlock out)) = false) by (fold rc; rewrite Erc; reflexivity).
        rewrite (cq_raw _ _ _ _ _ _ _ CO Sc x). cbn [raw_after]. rewrite G. reflexivity.
Qed.

(* ---------------------------------------------------------------- holds of other parties are never touched *)
Definition realb (sc : scen) (t : tid) : bool := memb t (threads_of (sc_hist sc)).

Definition strip (sc : scen) (s : rawst) : rawst :=
  mkraw (match writer s with Some u => if realb sc u then None else Some u | None => None end)
        (filter (fun u => negb (realb sc u)) (readers s)).

Lemma filter_remove1 (P : nat -> bool) t l : P t = false -> filter P (remove1 t l) = filter P l.
Proof.
  intros H. induction l as [|y r IH]; [reflexivity|]. simpl. destruct (Nat.eqb_spec t y) as [->|Hn].
  - now rewrite H.
  - simpl. now rewrite IH.
Qed.

Lemma strip_acq1 sc t k m s : realb sc t = true -> can1 k m s = true -> strip sc (acq1 t k m s) = strip sc s.
Proof.
  unfold can1, acq1, strip. destruct s as [wr rd]. intros Rt. destruct (shared k m); cbn [writer readers].
  - unfold no_writer. cbn [writer]. destruct wr; [discriminate|]. intros _. cbn [filter]. now rewrite Rt.
  - unfold is_free. cbn [writer readers]. destruct wr; [discriminate|]. destruct rd; [|discriminate]. intros _. now rewrite Rt.
Qed.

Lemma strip_rel1 sc t k m s : realb sc t = true -> held1 t k m s = true -> strip sc (rel1 t k m s) = strip sc s.
Proof.
  unfold held1, rel1, strip. destruct s as [wr rd]. intros Rt. destruct (shared k m); cbn [writer readers].
  - intros _. rewrite filter_remove1; [reflexivity|]. now rewrite Rt.
  - unfold writer_is. cbn [writer]. destruct wr as [u|]; [|discriminate]. intros H. apply Nat.eqb_eq in H. subst u. now rewrite Rt.
Qed.

Lemma strip_acq_all sc t m ls f l :
  realb sc t = true -> NoDup (locks_of ls) -> can_all m ls f = true -> strip sc (acq_all t m ls f l) = strip sc (f l).
Proof.
  intros Rt ND C. destruct (in_dec Nat.eq_dec l (locks_of ls)) as [Hl|Hl].
  - destruct (in_locks_of _ _ Hl) as [k Hk]. rewrite (acq_all_in t m ls f k l ND Hk). apply strip_acq1; [exact Rt|].
    unfold can_all in C. rewrite forallb_forall in C. apply (C (k, l) Hk).
  - now rewrite acq_all_other.
Qed.

Lemma strip_rel_all sc t m ls f l :
  realb sc t = true -> NoDup (locks_of ls) -> held_all t m ls f = true -> strip sc (rel_all t m ls f l) = strip sc (f l).
Proof.
  intros Rt ND H. destruct (in_dec Nat.eq_dec l (locks_of ls)) as [Hl|Hl].
  - destruct (in_locks_of _ _ Hl) as [k Hk]. rewrite (rel_all_in t m ls f k l ND Hk). apply strip_rel1; [exact Rt|].
    eapply held_all_in; eauto.
  - now rewrite rel_all_other.
Qed.

Definition ginv (sc : scen) (h : hstate) : Prop :=
  forall l, strip sc (w_raw (h_w h) l) = w_raw (sc_world sc) l.

Lemma realb_real sc t : real sc t -> realb sc t = true.
Proof. unfold real, realb. intros H. now apply memb_In. Qed.

Lemma strip_id sc s : (forall u, realb sc u = true -> holds_by u s = false) -> strip sc s = s.
Proof.
  intros H. unfold strip. destruct s as [wr rd]. cbn [writer readers]. f_equal.
  - destruct wr as [u|]; [|reflexivity]. destruct (realb sc u) eqn:R; [|reflexivity].
    specialize (H u R). unfold holds_by, writer_is in H. cbn [writer] in H. now rewrite Nat.eqb_refl in H.
  - assert (X : forall u, In u rd -> realb sc u = false).
    { intros u Hu. destruct (realb sc u) eqn:R; [|reflexivity]. specialize (H u R). unfold holds_by in H. cbn [readers] in H.
      apply orb_false_iff in H. destruct H as [_ H]. apply memb_In in Hu. congruence. }
    clear H. induction rd as [|y r IH]; [reflexivity|]. cbn [filter]. rewrite (X y (or_introl eq_refl)). cbn [negb].
    f_equal. apply IH. intros u Hu. apply X. now right.
Qed.

Lemma ginv_init sc : wf_hist sc -> ginv sc (mkh (sc_world sc) (fun _ => tl0) false).
Proof.
  intros W l. cbn [h_w]. apply strip_id. intros u Ru. apply (wh_pre_free _ W). unfold real. now apply memb_In.
Qed.

Lemma ginv_step sc nl np h ms t o h' co :
  wf_hist sc -> qinv sc h ms -> ginv sc h -> In (t, o) (sc_hist sc) ->
  hstep (sc_env sc) nl np h (t, o) = (h', [co]) -> stop_code (co_ret co) = false -> ginv sc h'.
Proof.
  intros W Q G Hin St Hs. pose proof (real_in _ _ _ Hin) as Rt. pose proof (realb_real _ _ Rt) as Rb.
  destruct (hstep_cases sc nl np h ms t o W Q Hin) as [[Hp E]|[p [out [w' [Hp [Rn [CO E]]]]]]]; rewrite E in St; inversion St; subst h' co; clear St E.
  - exact G.
  - cbn [co_ret] in Hs. intros l. cbn [h_w]. rewrite (cq_raw _ _ _ _ _ _ _ CO Hs l). rewrite <- (G l).
    cbn [clear_trace w_raw]. set (lc := h_loc h t) in *. set (rc := snd (api_fin (sc_env sc) lc o out)) in *.
    rewrite raw_after_classify. destruct (classify o rc) as [|c m| |] eqn:K; try reflexivity.
    + destruct (classify_TA _ _ _ _ K) as [GG [f Ho]]. subst o.
      destruct (wh_colls _ W t c m f Hin) as [s [Hn [_ ND]]].
      apply strip_acq_all; [exact Rb| |apply (cq_can _ _ _ _ _ _ _ CO c m f eq_refl GG)].
      unfold shape_of. rewrite Hn. now rewrite <- leaves_kleaves.
    + destruct (guard lc) as [[gm items]|] eqn:Gl; [|reflexivity]. cbn [g_mode g_items].
      destruct (qi_guard _ _ _ Q t gm items Gl) as [_ [ND [Hh _]]]. now apply strip_rel_all.
Qed.

(* when no thread of the history has a guard alive or leaked, every lock is exactly as it was at the start *)
Lemma final_free sc h ms :
  qinv sc h ms -> ginv sc h ->
  (forall t, real sc t -> mt_guard (ms t) = None /\ mt_leak (ms t) = []) ->
  forall l, w_raw (h_w h) l = w_raw (sc_world sc) l.
Proof.
  intros Q G Hn l. rewrite <- (G l). symmetry. apply strip_id. intros u Ru.
  assert (Rt : real sc u) by (unfold real; now apply memb_In).
  destruct (holds_by u (w_raw (h_w h) l)) eqn:E; [|reflexivity]. exfalso.
  destruct (Hn u Rt) as [MG ML].
  destruct (qi_holds _ _ _ Q u l Rt E) as [X|X].
  - unfold ghold in X. destruct (guard (h_loc h u)) eqn:Gu; [|exact X].
    destruct (qi_J _ _ _ Q u) as [_ HR]. unfold Rk in HR. rewrite Gu in HR. destruct (haskey (h_loc h u)); [contradiction|].
    destruct HR as [_ HR]. congruence.
  - rewrite (leaked_nil _ _ ML) in X. exact X.
Qed.

(* ---------------------------------------------------------------- whole histories *)
Definition mon_C05p (sc : scen) (obs : list callobs) : bool :=
  run_monitor (judge_C05p sc) sc obs &&
  (let (ms, cut) := final_track (fun _ => mt0) (sc_hist sc) obs in
   if cut then true
   else if forallb (fun t => is_none (mt_guard (ms t)) && is_nil (mt_leak (ms t))) (threads_of (sc_hist sc))
        then holds_sim (last (map co_holds obs) (pre_holds sc)) (pre_holds sc)
        else true).

Lemma mfold_C05_implies_partial sc obs : forall ms prev hist,
  mfold (judge_C05 sc) ms prev hist obs = true -> mfold (judge_C05p sc) ms prev hist obs = true.
Proof.
  induction obs as [|co orr IH]; intros ms prev hist H; destruct hist as [|[t o] hr]; try exact H.
  cbn [mfold] in *. apply andb_true_iff in H. destruct H as [H H3]. apply andb_true_iff in H. destruct H as [Ht Hj].
  rewrite Ht, (judge_C05_implies_partial _ _ _ _ _ _ Hj). cbn [andb].
  destruct (stop_code (co_ret co)) eqn:E; [reflexivity|]. apply IH. exact H3.
Qed.

Lemma mon_C05_implies_partial sc obs : mon_C05 sc obs = true -> mon_C05p sc obs = true.
Proof.
  unfold mon_C05, mon_C05p. intros H. apply andb_true_iff in H. destruct H as [H1 H2]. apply andb_true_iff. split; [|exact H2].
  now apply mfold_C05_implies_partial.
Qed.

Lemma last_cons_default {A} (x : A) l d : last (x :: l) d = last l x.
Proof. revert x d. induction l as [|y r IH]; intros x d; [reflexivity|]. change (last (x :: y :: r) d) with (last (y :: r) d). rewrite (IH y d). symmetry. apply (IH y x). Qed.

Lemma hist_C05 sc :
  wf_hist sc ->
  forall hist, (forall x, In x hist -> In x (sc_hist sc)) ->
  forall h ms, qinv sc h ms -> ginv sc h ->
  let obs := snd (hrun (sc_env sc) (sc_nlocks sc) (sc_npids sc) h hist) in
  mfold (judge_C05p sc) ms (snapshot_holds (sc_nlocks sc) (h_w h)) hist obs = true /\
  (snd (final_track ms hist obs) = false ->
   exists hF, qinv sc hF (fst (final_track ms hist obs)) /\ ginv sc hF /\
              last (map co_holds obs) (snapshot_holds (sc_nlocks sc) (h_w h)) = snapshot_holds (sc_nlocks sc) (h_w hF)).
Proof.
  intros W. induction hist as [|[t o] r IH]; intros Hsub h ms Q G.
  - cbn. split; [reflexivity|]. intros _. exists h. auto.
  - cbn zeta.
    destruct (qstep sc (sc_nlocks sc) (sc_npids sc) h ms t o W Q (Hsub _ (or_introl eq_refl)))
      as [h' [co [St [Ht [_ [_ [Hh [Hs' Q']]]]]]]].
    pose proof (step_C05p sc _ _ h ms t o h' co W Q (Hsub _ (or_introl eq_refl)) St) as J5.
    rewrite (hrun_cons _ _ _ h (t, o) r h' [co] St). cbn [app mfold final_track].
    rewrite Ht, Nat.eqb_refl, J5. cbn [andb].
    destruct (stop_code (co_ret co)) eqn:Sc.
    + split; [reflexivity|]. cbn. discriminate.
    + assert (Hsub' : forall x, In x r -> In x (sc_hist sc)) by (intros x Hx; apply Hsub; now right).
      pose proof (ginv_step sc _ _ h ms t o h' co W Q G (Hsub _ (or_introl eq_refl)) St Sc) as G'.
      destruct (IH Hsub' h' _ (Q' eq_refl) G') as [M F]. cbn zeta in M, F. rewrite Hh. split; [exact M|].
      intros Hc. destruct (F Hc) as [hF [QF [GF L]]]. exists hF. split; [exact QF|]. split; [exact GF|].
      cbn [map]. rewrite last_cons_default, Hh. exact L.
Qed.

Theorem C05_all_histories_partial sc : wf_hist sc -> mon_C05p sc (model_obs sc) = true.
Proof.
  intros W. unfold mon_C05p, run_monitor, model_obs, pre_holds.
  destruct (hist_C05 sc W (sc_hist sc) (fun x H => H) _ _ (qinv_init sc W) (ginv_init sc W)) as [M F]. cbn zeta in M, F.
  cbn [h_w] in M, F. rewrite M. cbn [andb].
  set (obs := snd (hrun (sc_env sc) (sc_nlocks sc) (sc_npids sc) {| h_w := sc_world sc; h_loc := fun _ : tid => tl0; h_stop := false |} (sc_hist sc))) in *.
  destruct (final_track (fun _ : tid => mt0) (sc_hist sc) obs) as [msF cut] eqn:FT. cbn [fst snd] in F.
  destruct cut; [reflexivity|].
  destruct (forallb (fun t => is_none (mt_guard (msF t)) && is_nil (mt_leak (msF t))) (threads_of (sc_hist sc))) eqn:All; [|reflexivity].
  destruct (F eq_refl) as [hF [QF [GF L]]]. rewrite L.
  rewrite (snapshot_holds_ext _ (h_w hF) (sc_world sc)); [apply holds_sim_refl|].
  apply (final_free sc hF msF QF GF). intros t Rt. rewrite forallb_forall in All. specialize (All t Rt).
  apply andb_true_iff in All. destruct All as [A B].
  split; [destruct (mt_guard (msF t)); [discriminate|reflexivity]|now apply is_nil_true].
Qed.

Corollary C05_all_histories_partial_dec sc : wf_histb sc = true -> mon_C05p sc (model_obs sc) = true.
Proof. intros H. apply C05_all_histories_partial. now apply wf_histb_ok. Qed.

(* ================================================================ the full monitor *)
Lemma no_bad_rev' evs : Forall nobad_ev evs -> existsb ev_bad (rev evs) = false.
Proof.
  intros H. apply Forall_rev in H. induction H as [|e r He Hr IH]; [reflexivity|]. cbn [existsb]. rewrite IH, orb_false_r.
  destruct e as [t0 k l0 r0| | | |]; try reflexivity. destruct r0; try reflexivity. destruct He.
Qed.

Lemma step_C05 sc nl np h ms t o h' co :
  wf_hist sc -> qinv sc h ms -> In (t, o) (sc_hist sc) ->
  hstep (sc_env sc) nl np h (t, o) = (h', [co]) ->
  judge_C05 sc ms (snapshot_holds nl (h_w h)) t o co = true.
Proof.
  intros W Q Hin St.
  pose proof (step_C05p sc nl np h ms t o h' co W Q Hin St) as J5.
  unfold judge_C05p in J5. apply andb_true_iff in J5. destruct J5 as [_ J5].
  unfold judge_C05. rewrite J5, andb_true_r.
  destruct (hstep_cases sc nl np h ms t o W Q Hin) as [[Hp E]|[p [out [w' [Hp [Rn [CO E]]]]]]]; rewrite E in St; inversion St; subst h' co; clear St E.
  - reflexivity.
  - cbn [co_evs]. destruct (cq_nobad _ _ _ _ _ _ _ CO) as [evs [T F]]. cbn [clear_trace w_trace] in T. rewrite app_nil_r in T.
    rewrite T. now rewrite no_bad_rev'.
Qed.

Lemma hist_C05_full sc :
  wf_hist sc ->
  forall hist, (forall x, In x hist -> In x (sc_hist sc)) ->
  forall h ms, qinv sc h ms ->
  mfold (judge_C05 sc) ms (snapshot_holds (sc_nlocks sc) (h_w h)) hist
        (snd (hrun (sc_env sc) (sc_nlocks sc) (sc_npids sc) h hist)) = true.
Proof.
  intros W. induction hist as [|[t o] r IH]; intros Hsub h ms Q; [reflexivity|].
  destruct (qstep sc (sc_nlocks sc) (sc_npids sc) h ms t o W Q (Hsub _ (or_introl eq_refl)))
    as [h' [co [St [Ht [_ [_ [Hh [Hs' Q']]]]]]]].
  pose proof (step_C05 sc _ _ h ms t o h' co W Q (Hsub _ (or_introl eq_refl)) St) as J5.
  rewrite (hrun_cons _ _ _ h (t, o) r h' [co] St). cbn [app mfold].
  rewrite Ht, Nat.eqb_refl, J5. cbn [andb].
  destruct (stop_code (co_ret co)) eqn:Sc; [reflexivity|].
  rewrite Hh. apply IH; [|now apply Q'].
  intros x Hx. apply Hsub. now right.
Qed.

Theorem C05_all_histories sc : wf_hist sc -> mon_C05 sc (model_obs sc) = true.
Proof.
  intros W. pose proof (C05_all_histories_partial sc W) as P. unfold mon_C05p in P. apply andb_true_iff in P. destruct P as [_ P].
  unfold mon_C05. rewrite P, andb_true_r. unfold run_monitor, model_obs, pre_holds.
  apply (hist_C05_full sc W (sc_hist sc) (fun x H => H) _ _ (qinv_init sc W)).
Qed.

Corollary C05_all_histories_dec sc : wf_histb sc = true -> mon_C05 sc (model_obs sc) = true.
Proof. intros H. apply C05_all_histories. now apply wf_histb_ok. Qed.

(* ---------------------------------------------------------------- a weaker judge passes wherever a stronger one does *)
Lemma mfold_mono (J1 J2 : (tid -> mthread) -> list rawst -> tid -> apiop -> callobs -> bool) :
  (forall ms prev t o co, J1 ms prev t o co = true -> J2 ms prev t o co = true) ->
  forall hist obs ms prev, mfold J1 ms prev hist obs = true -> mfold J2 ms prev hist obs = true.
Proof.
  intros HJ. induction hist as [|[t o] hr IH]; intros obs ms prev H.
  - destruct obs; [reflexivity|exact H].
  - destruct obs as [|co orr]; [reflexivity|]. cbn [mfold] in *.
    apply andb_true_iff in H. destruct H as [H H3]. apply andb_true_iff in H. destruct H as [H1 H2].
    rewrite H1, (HJ _ _ _ _ _ H2). cbn [andb]. destruct (stop_code (co_ret co)); [reflexivity|]. now apply IH.
Qed.

(* C10's clause "a panic in user code issues no flagged release" is part of what C05 demands of every call *)
Lemma mon_C05_implies_C10u sc obs : mon_C05 sc obs = true -> mon_C10u sc obs = true.
Proof.
  unfold mon_C05, mon_C10u, run_monitor. intros H. apply andb_true_iff in H. destruct H as [H _].
  revert H. apply mfold_mono. intros ms prev t o co J. unfold judge_C05 in J. apply andb_true_iff in J. destruct J as [J _].
  unfold judge_C10u. rewrite J. now destruct (rcode_eqb (co_ret co) RPanicked).
Qed.
