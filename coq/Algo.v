(* Algo.v — happylock's algorithms, function by function, in the program syntax of Model.v.
   Bookkeeping variables of the source (`locked`, `first_index`, loop index `i`) are threaded
   explicitly with the values they have in the source at that program point; a `handle_unwind`
   whose handler reads such a Cell is written as one Catch per panicking call, with the handler
   specialised to the Cell contents at that point (the only places that can panic are those calls). *)
From HL Require Import Base Model Shape.

(* ---------------------------------------------------------------- single locks: RawLock for Mutex / RwLock *)
(* mutex.rs:15-62 maps read operations of a Mutex onto its write operations *)
Definition acq_op (k : lkind) (m : mode) : rop := match k, m with KRw, Sh => OLockSh   | _, _ => OLock end.
Definition try_op (k : lkind) (m : mode) : rop := match k, m with KRw, Sh => OTrySh    | _, _ => OTry end.
Definition rel_op (k : lkind) (m : mode) : rop := match k, m with KRw, Sh => OUnlockSh | _, _ => OUnlock end.

(* raw_write / raw_read: assert!(!killed); handle_unwind(|| raw.lock(), || self.poison()) *)
Definition leaf_lock (m : mode) (k : lkind) (l : lock) : prog :=
  Op (OKilled l) (fun v => if vtrue v then Throw
                           else Catch (op_ (ORaw (acq_op k m) l)) (op_ (OKill l))).
(* raw_try_write / raw_try_read: if killed { return false }; handle_unwind(|| raw.try_lock(), || self.poison()) *)
Definition leaf_try (m : mode) (k : lkind) (l : lock) : prog :=
  Op (OKilled l) (fun v => if vtrue v then Ret (VBool false)
                           else Catch (Op (ORaw (try_op k m) l) Ret) (op_ (OKill l))).
(* raw_unlock_write / raw_unlock_read: handle_unwind(|| raw.unlock(), || self.poison()) *)
Definition leaf_unlock (m : mode) (k : lkind) (l : lock) : prog :=
  Catch (op_ (ORaw (rel_op k m) l)) (op_ (OKill l)).

(* ---------------------------------------------------------------- `&dyn RawLock` methods *)
(* RawLock::poison *)
Fixpoint rr_poison (r : rawref) : prog :=
  match r with
  | RLeaf _ l => op_ (OKill l)
  | ROwned _ inner => seqs (map rr_poison inner)              (* owned.rs:12-17 *)
  end.

(* raw_unlock_write / raw_unlock_read *)
Fixpoint rr_unlock (m : mode) (r : rawref) : prog :=
  match r with
  | RLeaf k l => leaf_unlock m k l
  | ROwned _ inner => seqs (map (rr_unlock m) inner)          (* owned.rs:28-33, 45-50: plain loop *)
  end.

(* utils.rs:226-249 attempt_to_recover_{writes,reads}_from_panic *)
Definition recover (m : mode) (rs : list rawref) : prog :=
  Catch (seqs (map (rr_unlock m) rs)) (seqs (map rr_poison rs)).

Section Lists.
  Variable m : mode.
  Variable lk : rawref -> prog.     (* raw_write / raw_read of an element *)
  Variable tr : rawref -> prog.     (* raw_try_write / raw_try_read of an element *)

  (* utils.rs:39-66 ordered_write / ordered_read; [done] = locks[0..locked] *)
  Fixpoint ordered_lock_from (done todo : list rawref) : prog :=
    match todo with
    | [] => skip
    | x :: r => Catch (lk x) (recover m done) ;; ordered_lock_from (done ++ [x]) r
    end.

  (* utils.rs:72-125 ordered_try_write / ordered_try_read; at index i, locked = i and [done] = locks[0..i].
     The rollback is a plain loop inside the outer handle_unwind. *)
  Fixpoint ordered_try_from (done todo : list rawref) : prog :=
    match todo with
    | [] => Ret (VBool true)
    | x :: r =>
        Bind (Catch (tr x) (recover m done))
             (fun v => if vtrue v then ordered_try_from (done ++ [x]) r
                       else Catch (seqs (map (rr_unlock m) done)) (recover m done) ;; Ret (VBool false))
    end.

  (* retry.rs:106-134 / 197-224 raw_try_write / raw_try_read of the retrying collection: the rollback is
     attempt_to_recover_*(&locks[0..i]) *)
  Fixpoint retry_try_from (done todo : list rawref) : prog :=
    match todo with
    | [] => Ret (VBool true)
    | x :: r =>
        Bind (Catch (tr x) (recover m done))
             (fun v => if vtrue v then retry_try_from (done ++ [x]) r
                       else Catch (recover m done) (recover m done) ;; Ret (VBool false))
    end.
End Lists.

Fixpoint rr_lock (m : mode) (r : rawref) : prog :=
  match r with
  | RLeaf k l => leaf_lock m k l
  | ROwned _ inner => ordered_lock_from m (rr_lock m) [] inner     (* owned.rs:19-21, 35-37 *)
  end.

Fixpoint rr_try (m : mode) (r : rawref) : prog :=
  match r with
  | RLeaf k l => leaf_try m k l
  | ROwned _ inner => ordered_try_from m (rr_try m) [] inner       (* owned.rs:23-26, 39-43 *)
  end.

Definition ordered_lock (m : mode) (rs : list rawref) : prog := ordered_lock_from m (rr_lock m) [] rs.
Definition ordered_try  (m : mode) (rs : list rawref) : prog := ordered_try_from m (rr_try m) [] rs.
Definition retry_try    (m : mode) (rs : list rawref) : prog :=
  match rs with [] => Ret (VBool true) | _ => retry_try_from m (rr_try m) [] rs end.

(* ---------------------------------------------------------------- retry.rs:44-104 / 144-195 raw_write / raw_read *)
Definition dflt : rawref := RLeaf KMutex 0.
Definition nthr (i : nat) (rs : list rawref) : rawref := nth i rs dflt.

Section Retry.
  Variable m : mode.
  Variable locks : list rawref.

  (* the unwind handler, reading first_index and locked as they are at the panic *)
  Definition retry_handler (first locked : nat) : prog :=
    recover m (firstn locked locks) ;;
    (if Nat.leb locked first then rr_unlock m (nthr first locks) else skip).

  (* the `for (i, lock) in locks.iter().enumerate()` loop; [todo] = locks[i..];
     [again i] = `first_index.set(i); continue 'outer` *)
  Fixpoint retry_inner (again : nat -> prog) (first i locked : nat) (todo : list rawref) : prog :=
    match todo with
    | [] => skip                                                   (* break: everything is locked *)
    | x :: r =>
        if Nat.eqb i first then retry_inner again first (S i) locked r         (* continue *)
        else Bind (Catch (rr_try m x) (retry_handler first locked))
               (fun v => if vtrue v then retry_inner again first (S i) (S locked) r
                         else
                           (* attempt_to_recover_*(&locks[0..i]); if first_index >= i { unlock locks[first_index] }
                              — still inside the outer handle_unwind, locked not yet reset *)
                           Catch (recover m (firstn i locks) ;;
                                  (if Nat.leb i first then rr_unlock m (nthr first locks) else skip))
                                 (retry_handler first locked) ;;
                           again i)
    end.

  Fixpoint retry_outer (fuel : nat) (first : nat) : prog :=
    match fuel with
    | 0 => Fuel
    | S f =>
        (* locks[first_index].raw_write() — at this point locked = 0 *)
        Catch (rr_lock m (nthr first locks)) (retry_handler first 0) ;;
        retry_inner (retry_outer f) first 0 0 locks
    end.

  Definition retry_lock (fuel : nat) : prog :=
    match locks with [] => skip | _ => retry_outer fuel 0 end.
End Retry.

(* ---------------------------------------------------------------- a lock or collection as a RawLock *)
Inductive alg :=
| AlgLeaf (k : lkind) (l : lock)
| AlgOrdered (rs : list rawref)      (* boxed / ref: address-sorted cache; owned: listing order *)
| AlgRetry (rs : list rawref)
| AlgNone.                           (* a bare tuple/array/Vec is not a RawLock *)

Fixpoint alg_of (am : addrmap) (s : shape) : alg :=
  match s with
  | SLeaf k l    => AlgLeaf k l
  | SSeq _       => AlgNone
  | SBoxed s'    => AlgOrdered (isort (raddr am) (get_ptrs am s'))      (* boxed.rs new_unchecked *)
  | SRefC s'     => AlgOrdered (isort (raddr am) (get_ptrs am s'))      (* utils::get_locks *)
  | SOwned _ s'  => AlgOrdered (get_ptrs am s')                         (* get_locks_unsorted *)
  | SRetry s'    => AlgRetry (get_ptrs am s')
  | SPoison _ s' => alg_of am s'                                        (* poisonable.rs:15-45 delegates *)
  end.

Definition alg_refs (a : alg) : list rawref :=
  match a with AlgLeaf k l => [RLeaf k l] | AlgOrdered rs | AlgRetry rs => rs | AlgNone => [] end.

Definition raw_lock (fuel : nat) (m : mode) (a : alg) : prog :=
  match a with
  | AlgLeaf k l   => leaf_lock m k l
  | AlgOrdered rs => ordered_lock m rs
  | AlgRetry rs   => retry_lock m rs fuel
  | AlgNone       => skip
  end.

Definition raw_try (m : mode) (a : alg) : prog :=
  match a with
  | AlgLeaf k l   => leaf_try m k l
  | AlgOrdered rs => ordered_try m rs
  | AlgRetry rs   => retry_try m rs
  | AlgNone       => Ret (VBool true)
  end.

(* raw_unlock_write / raw_unlock_read of collections: plain `for` loops (boxed.rs:29-33, ref.rs:41-45,
   owned.rs:28-33, retry.rs:136-142) *)
Definition raw_unlock (m : mode) (a : alg) : prog :=
  match a with
  | AlgLeaf k l   => leaf_unlock m k l
  | AlgOrdered rs | AlgRetry rs => seqs (map (rr_unlock m) rs)
  | AlgNone       => skip
  end.

(* ---------------------------------------------------------------- guards *)
(* Dropping the guard structure: fields / elements in declared order.  PoisonRef::drop runs before its
   inner guard is dropped and poisons iff thread::panicking().  If a release panics during a normal drop
   the remaining fields are still dropped, now while unwinding; a second panic then aborts. *)
Fixpoint drop_items (m : mode) (unw : bool) (items : list gitem) : prog :=
  match items with
  | [] => skip
  | GPoison p :: r => (if unw then op_ (OPoison p) else skip) ;; drop_items m unw r
  | GLeaf k l :: r =>
      if unw then Catch (leaf_unlock m k l) Abort ;; drop_items m true r
      else Catch (leaf_unlock m k l) (drop_items m true r) ;; drop_items m false r
  end.
