(* WpData.v — C02, continuity of the protected data on every schedule: the data of a lock changes only by the write of a
   thread that holds the lock exclusively; hence while a thread holds a lock (in either mode) no turn of another thread
   changes that lock's data — a section observes exactly what the most recent exclusive section left (no lost, torn or
   misdirected update in between). *)
From HL Require Import Base Model Shape Algo Api Conc OpsLemmas Lemmas ShapeLemmas Wp WpAlgo WpApi Pf_C01 WpMain.

(* ---------------------------------------------------------------- which operations touch the data (any program, any world) *)
Lemma do_op_data pw t o w l :
  match do_op pw t o w with
  | RDone _ w' | RPanic w' | RBlock w' => w_data w' l <> w_data w l -> exists pos, o = OWrite pos l
  end.
Proof.
  destruct o as [r l0| | | | | | |pos l0|pos l0| | | |]; cbn [do_op]; try (intros X; now contradiction X).
  - destruct (faulty w r l0); [intros X; now contradiction X|].
    destruct (raw_apply t r (w_raw w l0) (pw l0)); intros X; now contradiction X.
  - cbn [emit set_data w_data]. unfold upd. destruct (Nat.eqb_spec l l0) as [->|N]; intros X; [now exists pos|now contradiction X].
Qed.

(* running on to the next scheduling point executes no write (a write is a scheduling point) *)
Lemma adv_data lr t p : forall w l,
  match adv false lr t p w with AFin _ w' | APark _ w' => w_data w' l = w_data w l end.
Proof.
  induction p as [v| | | |o k IH|m IHm k IHk|b IHb h IHh]; intros w l; cbn [adv]; try reflexivity.
  - unfold stops_here. cbn [andb negb]. rewrite andb_true_r. destruct (is_sched o) eqn:S; [reflexivity|].
    pose proof (do_op_data nopw t o w l) as D.
    destruct (do_op nopw t o w) as [v w'|w'|w'] eqn:E.
    + specialize (IH v w' l). destruct (adv false lr t (k v) w') as [out w''|p' w'']; rewrite IH;
        (destruct (Nat.eq_dec (w_data w' l) (w_data w l)) as [Q|Q]; [exact Q|destruct (D Q) as [pos ->]; discriminate S]).
    + destruct (Nat.eq_dec (w_data w' l) (w_data w l)) as [Q|Q]; [exact Q|destruct (D Q) as [pos ->]; discriminate S].
    + reflexivity.
  - specialize (IHm w l). destruct (adv false lr t m w) as [out w'|m' w']; [|exact IHm].
    destruct out as [v| | | |]; try exact IHm.
    specialize (IHk v w' l). destruct (adv false lr t (k v) w') as [out2 w''|p' w'']; congruence.
  - specialize (IHb w l). destruct (adv false lr t b w) as [out w'|b' w']; [|exact IHb].
    destruct out as [v| | | |]; try exact IHb.
    specialize (IHh w' l). destruct (adv false lr t h w') as [out2 w''|h' w'']; [destruct out2|]; congruence.
Qed.

Lemma drain_calls_data lr pb e t : forall rest loc w evs l,
  w_data (snd (fst (drain_calls false lr pb e t loc rest w evs))) l = w_data w l.
Proof.
  induction rest as [|o r IH]; intros loc w evs l; cbn [drain_calls]; [reflexivity|].
  destruct (api_prog e loc o) as [p|]; [|apply IH].
  pose proof (adv_data lr t p (clear_trace w) l) as D.
  destruct (adv false lr t p (clear_trace w)) as [out w'|p' w']; [|exact D].
  destruct pb; [exact D|].
  destruct (api_fin e loc o out) as [lc' rc]. destruct (stops rc); [exact D|]. rewrite IH. exact D.
Qed.

Lemma settle_data lr pbnow pb e t o loc rest p w evs l :
  w_data (snd (fst (settle false lr pbnow pb e t o loc rest p w evs))) l = w_data w l.
Proof.
  unfold settle. pose proof (adv_data lr t p (clear_trace w) l) as D.
  destruct (adv false lr t p (clear_trace w)) as [out w'|p' w']; [|exact D].
  destruct pbnow; [exact D|].
  destruct (api_fin e loc o out) as [lc' rc]. destruct (stops rc); [exact D|]. rewrite drain_calls_data. exact D.
Qed.

Lemma step_nextop pw t p : forall w,
  match step pw t p w with
  | SRet v => nextop p = NRet v
  | SThrow => nextop p = NThrow
  | SAbort => nextop p = NAbort
  | SFuel => nextop p = NFuel
  | SStep _ _ | SBlock _ => exists o, nextop p = NOp o
  end.
Proof.
  induction p as [v| | | |o k IH|m IHm k IHk|b IHb h IHh]; intros w; cbn [step nextop]; try reflexivity.
  - destruct (do_op pw t o w); now exists o.
  - specialize (IHm w). destruct (step pw t m w) as [v| | | |m' w'|w']; try (rewrite IHm; reflexivity).
    + rewrite IHm. apply IHk.
    + destruct IHm as [o E]. rewrite E. now exists o.
    + destruct IHm as [o E]. rewrite E. now exists o.
  - specialize (IHb w). destruct (step pw t b w) as [v| | | |b' w'|w']; try (rewrite IHb; reflexivity).
    + rewrite IHb. specialize (IHh w). destruct (step pw t h w) as [v| | | |h' w'|w']; try (rewrite IHh; reflexivity).
      * destruct IHh as [o E]. rewrite E. now exists o.
      * destruct IHh as [o E]. rewrite E. now exists o.
    + destruct IHb as [o E]. rewrite E. now exists o.
    + destruct IHb as [o E]. rewrite E. now exists o.
Qed.

(* one operation: the data changes only if the operation performed — the one the program was parked on — is a write *)
Lemma step_data pw t p : forall w l,
  match step pw t p w with
  | SStep _ w' | SBlock w' => w_data w' l <> w_data w l -> exists pos, nextop p = NOp (OWrite pos l)
  | _ => True
  end.
Proof.
  induction p as [v| | | |o k IH|m IHm k IHk|b IHb h IHh]; intros w l; cbn [step nextop]; try exact I.
  - pose proof (do_op_data pw t o w l) as D. destruct (do_op pw t o w) as [v w'|w'|w']; intros X; destruct (D X) as [pos ->]; now exists pos.
  - specialize (IHm w l). pose proof (step_nextop pw t m w) as N.
    destruct (step pw t m w) as [v| | | |m' w'|w']; try exact I.
    + rewrite N. apply IHk.
    + intros X. destruct (IHm X) as [pos E]. rewrite E. now exists pos.
    + intros X. destruct (IHm X) as [pos E]. rewrite E. now exists pos.
  - specialize (IHb w l). pose proof (step_nextop pw t b w) as N.
    destruct (step pw t b w) as [v| | | |b' w'|w']; try exact I.
    + rewrite N. specialize (IHh w l). pose proof (step_nextop pw t h w) as Nh.
      destruct (step pw t h w) as [v| | | |h' w'|w']; try exact I.
      * intros X. destruct (IHh X) as [pos E]. rewrite E. now exists pos.
      * intros X. destruct (IHh X) as [pos E]. rewrite E. now exists pos.
    + intros X. destruct (IHb X) as [pos E]. rewrite E. now exists pos.
    + intros X. destruct (IHb X) as [pos E]. rewrite E. now exists pos.
Qed.

(* one turn of a thread: only the operation it was parked on can be a write *)
Lemma turn_data yr pb wpo e nl s t l :
  th_over (get_thr (b_thr s) t) = false ->
  w_data (b_w (turn_g false yr pb wpo e nl s t)) l <> w_data (b_w s) l ->
  exists pos, parked (get_thr (b_thr s) t) = Some (OWrite pos l).
Proof.
  intros OV. unfold turn_g, parked. rewrite OV. cbn [orb].
  destruct (th_started (get_thr (b_thr s) t)); cbn [negb].
  - destruct (th_cur (get_thr (b_thr s) t)) as [[o p]|]; [|intros X; now contradiction X].
    pose proof (step_data (pendw wpo (b_thr s) t) t p (clear_trace (b_w s)) l) as D.
    destruct (step (pendw wpo (b_thr s) t) t p (clear_trace (b_w s))) as [v| | | |p' w1|w1]; try (intros X; now contradiction X).
    match goal with |- context [if ?c then _ else _] => destruct c end.
    + cbn [b_w]. intros X. destruct (D X) as [pos E]. rewrite E. now exists pos.
    + match goal with |- context [settle ?a ?b0 ?b1 ?b2 ?c ?d ?e0 ?f ?g ?h ?i ?j] =>
        pose proof (settle_data b0 b1 b2 c d e0 f g h i j l) as S;
        destruct (settle a b0 b1 b2 c d e0 f g h i j) as [[th' w'] evs'] end.
      cbn [b_w fst snd] in *. rewrite S. intros X. destruct (D X) as [pos E]. rewrite E. now exists pos.
  - match goal with |- context [drain_calls ?a ?b0 ?b1 ?c ?d ?e0 ?f ?g ?h] =>
      pose proof (drain_calls_data b0 b1 c d f e0 g h l) as S;
      destruct (drain_calls a b0 b1 c d e0 f g h) as [[th' w'] evs'] end.
    cbn [b_w fst snd] in *. intros X. now contradiction X.
Qed.

(* while a thread holds a lock, in either mode, no turn of another thread changes that lock's data — in every state of
   every schedule *)
Theorem every_schedule_data_stable b sched t u l :
  wfB b = true ->
  let sc := bs_sc b in
  let s := fst (run_sched (bs_wp b) (sc_env sc) (sc_nlocks sc) (binit b) sched) in
  t <> u -> enabled (bs_wp b) s u = true -> holds_b (b_w s) t l = true ->
  w_data (b_w (turn (bs_wp b) (sc_env sc) (sc_nlocks sc) s u)) l = w_data (b_w s) l.
Proof.
  intros W sc s N EN HT.
  destruct (Nat.eq_dec (w_data (b_w (turn (bs_wp b) (sc_env sc) (sc_nlocks sc) s u)) l) (w_data (b_w s) l)) as [Q|Q]; [exact Q|].
  exfalso.
  assert (OV : th_over (get_thr (b_thr s) u) = false).
  { unfold enabled in EN. destruct (th_over (get_thr (b_thr s) u)); [discriminate|reflexivity]. }
  destruct (turn_data false false (bs_wp b) (sc_env sc) (sc_nlocks sc) s u l OV Q) as [pos PK].
  pose proof (proj2 (every_schedule_data_under_hold b sched u pos l W) PK) as WU. fold sc in WU. fold s in WU.
  assert (R : rawwf (b_w s)).
  { apply run_sched_rawwf. unfold binit. cbn [b_w].
    destruct (wfB_parts _ _ (fun _ H l => rank_okb_ok _ _ H l) b W) as [_ [PRE _]].
    intros l0. unfold sc_world. rewrite PRE. cbn [fold_right w_raw]. intros X. reflexivity. }
  unfold writer_is in WU. destruct (writer (w_raw (b_w s) l)) as [x|] eqn:EW; [|discriminate]. apply Nat.eqb_eq in WU. subst x.
  unfold holds_b, writer_is in HT. rewrite EW in HT. destruct (Nat.eqb_spec u t); [congruence|]. cbn [orb] in HT.
  specialize (R l). unfold xwf in R. rewrite EW in R. rewrite R in HT by discriminate. discriminate.
Qed.

(* and the only thing that ever changes a lock's data is a write by a thread that holds it exclusively *)
Theorem every_schedule_data_changes_only_under_exclusive_hold b sched u l :
  wfB b = true ->
  let sc := bs_sc b in
  let s := fst (run_sched (bs_wp b) (sc_env sc) (sc_nlocks sc) (binit b) sched) in
  enabled (bs_wp b) s u = true ->
  w_data (b_w (turn (bs_wp b) (sc_env sc) (sc_nlocks sc) s u)) l <> w_data (b_w s) l ->
  writer_is (w_raw (b_w s) l) u = true.
Proof.
  intros W sc s EN Q.
  assert (OV : th_over (get_thr (b_thr s) u) = false).
  { unfold enabled in EN. destruct (th_over (get_thr (b_thr s) u)); [discriminate|reflexivity]. }
  destruct (turn_data false false (bs_wp b) (sc_env sc) (sc_nlocks sc) s u l OV Q) as [pos PK].
  exact (proj2 (every_schedule_data_under_hold b sched u pos l W) PK).
Qed.
