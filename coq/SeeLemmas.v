(* SeeLemmas.v — what user code sees of the Poisonable wrappers (Ok / Err at each wrapper position of a guard or closure
   argument): exactly the flags at the time of looking; and the result code of a guard acquisition of a wrapper. *)
From HL Require Import Base Model Shape Algo Api OpsLemmas Lemmas ShapeLemmas ApiLemmas QuietLemmas Check Monitors.

Lemma see_bools_app a b : see_bools (a ++ b) = see_bools a ++ see_bools b.
Proof. induction a as [|e r IH]; [reflexivity|]. destruct e; cbn [app see_bools]; try exact IH. now rewrite IH. Qed.

Definition nosee_ev (e : ev) : Prop := match e with ESee _ _ => False | _ => True end.
Definition noseeop (o : op) : Prop := match o with OSeePoison _ => False | _ => True end.

Lemma see_bools_nosee evs : Forall nosee_ev evs -> see_bools evs = [].
Proof. induction 1 as [|e r He Hr IH]; [reflexivity|]. destruct e; cbn [see_bools]; try exact IH. destruct He. Qed.

Lemma run_nosee pw t p w out w' :
  ops_in noseeop p -> run pw t p w = (out, w') -> exists evs, w_trace w' = evs ++ w_trace w /\ Forall nosee_ev evs.
Proof.
  intros Ho R.
  destruct (run_ops_inv pw t noseeop (fun _ => True) nosee_ev) with (p := p) (w := w) (out := out) (w' := w') as [_ H]; auto.
  intros o w1 Ao _. destruct o; simpl in Ao |- *; try contradiction;
    try (split; [exact I|exists []; split; [reflexivity|constructor]]);
    try (split; [exact I|eexists [_]; split; [reflexivity|repeat constructor]]).
  destruct (faulty w1 k l); [split; [exact I|eexists [_]; split; [reflexivity|repeat constructor]]|].
  destruct (raw_apply t k (w_raw w1 l) (pw l)); (split; [exact I|eexists [_]; split; [reflexivity|repeat constructor]]).
Qed.

Lemma alg_nosee p : ops_in alg_op p -> ops_in noseeop p.
Proof. apply ops_in_weaken. intros o. destruct o; simpl; tauto. Qed.

Lemma tail_nosee e : tail_ev e -> nosee_ev e.
Proof. destruct e; simpl; tauto. Qed.

(* looking at the wrappers: the flags as they are, nothing changes *)
Lemma run_see_all_exact t ps : forall w,
  exists w', run nopw t (see_all ps) w = (ODone VUnit, w') /\
             w_trace w' = rev (map (fun p => ESee t (w_psn w p)) ps) ++ w_trace w /\
             (forall x, w_psn w' x = w_psn w x) /\ frame w w'.
Proof.
  induction ps as [|p r IH]; intros w.
  - exists w. split; [reflexivity|]. split; [reflexivity|]. split; [reflexivity|apply frame_refl].
  - destruct (IH (emit w (ESee t (w_psn w p)))) as [w' [R [T [P F]]]].
    exists w'. split; [|split; [|split]].
    + unfold see_all in *. cbn [map seqs]. unfold pthen at 1. cbn [run op_ do_op]. exact R.
    + rewrite T. cbn [emit w_trace w_psn map rev]. now rewrite <- app_assoc.
    + intros x. rewrite P. reflexivity.
    + eapply frame_trans; [|exact F]. constructor; simpl; auto. exists [ESee t (w_psn w p)]. split; [reflexivity|].
      constructor; [exact I|constructor].
Qed.

Lemma see_bools_rev_map t (f : pid -> bool) ps : see_bools (rev (rev (map (fun p => ESee t (f p)) ps))) = map f ps.
Proof. rewrite rev_involutive. induction ps as [|p r IH]; [reflexivity|]. cbn [map see_bools]. now rewrite IH. Qed.

(* the accesses of a closure body emit no wrapper observation *)
Lemma cs_list_nosee m items body : ops_in noseeop (seqs (map (cs_prog m items) body)).
Proof.
  apply ops_in_seqs_map. intros c. destruct c; cbn [cs_prog].
  - destruct (nth_leaf items pos) as [[k l]|]; [apply ops_in_op_; exact I|constructor].
  - destruct m; [constructor|]. destruct (nth_leaf items pos) as [[k l]|]; [apply ops_in_op_; exact I|constructor].
  - constructor.
  - apply ops_in_op_. exact I.
Qed.

(* a closure looks at every wrapper of its argument once, right after it is entered, and sees the flags as they are *)
Lemma run_closure_see t m items body w out w' :
  run nopw t (closure m items body) w = (out, w') ->
  exists U, w_trace w' = U ++ EMark t 1 :: w_trace w /\ see_bools (rev U) = map (w_psn w) (gpoisons items).
Proof.
  unfold closure. intros R. unfold pthen at 1 in R. cbn [run op_ do_op] in R.
  set (w1 := emit w (EMark t 1)) in *.
  destruct (run_see_all_exact t (gpoisons items) w1) as [w2 [R2 [T2 [P2 F2]]]].
  rewrite (run_then_done _ _ _ _ _ _ _ R2) in R.
  destruct (run_nosee nopw t _ _ _ _ (cs_list_nosee m items body) R) as [C [TC FC]].
  exists (C ++ rev (map (fun p => ESee t (w_psn w1 p)) (gpoisons items))). split.
  - rewrite TC, T2. unfold w1. cbn [emit w_trace]. now rewrite <- app_assoc.
  - rewrite rev_app_distr, see_bools_app, see_bools_rev_map.
    rewrite (see_bools_nosee (rev C)) by (now apply Forall_rev). rewrite app_nil_r. reflexivity.
Qed.

(* Ok(guard) or Err(PoisonError(guard)): decided by the flag of the root wrapper *)
Lemma run_poison_result_exact t s w :
  run nopw t (poison_result s) w =
  (ODone (VNat (match root_poison s with Some p => if w_psn w p then 2 else 0 | None => 0 end)), w).
Proof.
  unfold poison_result. destruct (root_poison s); [|reflexivity]. cbn [run do_op].
  destruct (w_psn w p); reflexivity.
Qed.
