(* Prop_C02.v — C02: mutual exclusion and per-lock data continuity.
   For EVERY schedule of the interleaved model (C02_every_schedule_data_under_hold, C02_every_schedule_exclusive): a
   thread about to read user data through a guard / closure position holds that position's lock, a thread about to write
   holds it exclusively, and no other thread is then at an access of the same lock's data.  In the model the payload of
   a lock is changed only by such writes, so every section sees what the latest exclusive section left.
   The exclusion between holders is the raw lock's contract (modelled by raw_apply, implemented by the
   harness's auditing lock; parking_lot / spin are not verified).  What is proved is that happylock hands
   out data access only to the holder and routes position i of every guard / closure argument to member i. *)
From HL Require Import Base Model Shape Algo Api Conc OpsLemmas Lemmas ShapeLemmas ApiLemmas QuietLemmas Pf_Calls Pf_Hist Pf_Hist2.
From HL Require WpData.
From HL Require Wp WpMain.

(* the guard structure covers exactly the declared leaves, in declared order ... *)
Theorem C02_guard_covers : forall s, gleaves (gitems s) = kleaves s.
Proof. exact gleaves_gitems. Qed.

(* ... and they are exactly the locks the acquisition takes, for every kind of root *)
Theorem C02_acquired_is_covered :
  forall am s, acquirable s = true -> Permutation (rsleaves (alg_refs (alg_of am s))) (gleaves (gitems s)).
Proof. intros am s Ha. rewrite gleaves_gitems. now apply alg_refs_leaves. Qed.

(* position i of a guard / closure argument denotes the data cell of the i-th declared leaf *)
Theorem C02_position_routes :
  forall s i, nth_leaf (gitems s) i = nth_error (kleaves s) i.
Proof. intros. unfold nth_leaf. now rewrite gleaves_gitems. Qed.

Theorem C02_access_hits_that_cell :
  forall pw t pos l w, do_op pw t (ORead pos l) w = RDone (VNat (w_data w l)) (emit w (EData t false pos l (w_data w l))).
Proof. reflexivity. Qed.

(* a section observes the value left by the latest exclusive section of that same lock *)
Theorem C02_write_then_read :
  forall pw t t' pos pos' l w,
    match do_op pw t (OWrite pos l) w with
    | RDone _ w1 => do_op pw t' (ORead pos' l) w1 = RDone (VNat (S (w_data w l))) (emit w1 (EData t' false pos' l (S (w_data w l))))
    | _ => False
    end.
Proof. intros. simpl. rewrite upd_same. reflexivity. Qed.

(* the raw-lock contract: exclusive only when free, shared only without a writer (and, writer-preferring,
   without a waiting writer) *)
Theorem C02_raw_contract :
  forall t k m s, raw_apply t (acq_op k m) s false = if can1 k m s then AOk (acq1 t k m s) else ABlock.
Proof. exact raw_apply_acq. Qed.

(* a scoped closure runs only while all of its locks are held: between the acquisition and the release *)
Theorem C02_closure_under_hold :
  forall t m am s lent body, acquirable s = true -> NoDup (leaves s) ->
  forall acq w v1 w1 f0,
    quiet w -> run nopw t acq w = (ODone v1, w1) -> effp w w1 (acq_all t m (kleaves s) f0) (w_psn w) ->
    (forall x, w_keyf w1 x = w_keyf w x) -> can_all m (kleaves s) f0 = true ->
    exists w',
      run nopw t (scoped_rest m s (alg_of am s) lent body acq) w =
        ((if existsb is_cpanic body then OPanic else ODone (VNat 0)), w') /\
      effp w w' f0 (match root_poison s with
                    | Some p => if existsb is_cpanic body then upd (w_psn w) p true else w_psn w
                    | None => w_psn w
                    end) /\
      w_keyf w' t = (if lent then w_keyf w t else false) /\
      (forall x, x <> t -> w_keyf w' x = w_keyf w x) /\
      (* the closure-entry marker comes right after the acquisition; afterwards only user events, then no acquisition *)
      exists w2 evR,
        run nopw t (closure m (gitems s) body) w1 = ((if existsb is_cpanic body then OPanic else ODone VUnit), w2) /\
        frame (emit w1 (EMark t 1)) w2 /\ w_trace w' = evR ++ w_trace w2 /\ Forall tail_ev evR.
Proof. exact run_scoped_rest_quiet. Qed.

(* ---------------------------------------------------------------- every history: guards of different threads exclude *)
(* In EVERY state that a fault-free history of API calls goes through (any number of threads, any collections, any holds
   of other parties at the start): if two different threads have live guards whose structures contain the same lock, both
   hold it shared — an exclusive guard (or any guard over a Mutex) excludes every other guard over that lock. *)
Theorem C02_guards_exclusive :
  forall sc, wf_histb sc = true ->
  forall n, let h := fst (hrun (sc_env sc) (sc_nlocks sc) (sc_npids sc) (mkh (sc_world sc) (fun _ => tl0) false)
                               (firstn n (sc_hist sc))) in
  h_stop h = false ->
  forall t1 t2 m1 items1 m2 items2 k1 k2 l, t1 <> t2 ->
    guard (h_loc h t1) = Some (mkg m1 items1) -> guard (h_loc h t2) = Some (mkg m2 items2) ->
    In (k1, l) (gleaves items1) -> In (k2, l) (gleaves items2) ->
    shared k1 m1 = true /\ shared k2 m2 = true.
Proof. intros sc H. apply guards_exclusive. now apply wf_histb_ok. Qed.


(* ---------------------------------------------------------------- every schedule of the interleaved model *)
Theorem C02_every_schedule_data_under_hold :
  forall b sched t pos l, WpMain.wfB b = true ->
  let sc := bs_sc b in
  let s := fst (run_sched (bs_wp b) (sc_env sc) (sc_nlocks sc) (binit b) sched) in
  (parked (get_thr (b_thr s) t) = Some (ORead pos l) -> holds_b (b_w s) t l = true) /\
  (parked (get_thr (b_thr s) t) = Some (OWrite pos l) -> writer_is (w_raw (b_w s) l) t = true).
Proof. exact WpMain.every_schedule_data_under_hold. Qed.

Theorem C02_every_schedule_exclusive :
  forall b sched t u pos pos' l, WpMain.wfB b = true ->
  let sc := bs_sc b in
  let s := fst (run_sched (bs_wp b) (sc_env sc) (sc_nlocks sc) (binit b) sched) in
  t <> u ->
  parked (get_thr (b_thr s) t) = Some (OWrite pos l) ->
  parked (get_thr (b_thr s) u) <> Some (OWrite pos' l) /\ parked (get_thr (b_thr s) u) <> Some (ORead pos' l).
Proof. exact WpMain.every_schedule_exclusive. Qed.

(* continuity of the data: while a thread holds a lock — shared or exclusive — no turn of any other thread changes that
   lock's data, in every state of every schedule; and whenever a lock's data changes, the thread whose turn it was holds
   the lock exclusively.  A section therefore observes exactly the value the most recent exclusive section of that lock
   left: nothing is lost, torn or written by a bystander in between. *)
Theorem C02_every_schedule_data_stable :
  forall b sched t u l, WpMain.wfB b = true ->
  let sc := bs_sc b in
  let s := fst (run_sched (bs_wp b) (sc_env sc) (sc_nlocks sc) (binit b) sched) in
  t <> u -> enabled (bs_wp b) s u = true -> holds_b (b_w s) t l = true ->
  w_data (b_w (turn (bs_wp b) (sc_env sc) (sc_nlocks sc) s u)) l = w_data (b_w s) l.
Proof. exact WpData.every_schedule_data_stable. Qed.

Theorem C02_every_schedule_data_changes_only_under_exclusive_hold :
  forall b sched u l, WpMain.wfB b = true ->
  let sc := bs_sc b in
  let s := fst (run_sched (bs_wp b) (sc_env sc) (sc_nlocks sc) (binit b) sched) in
  enabled (bs_wp b) s u = true ->
  w_data (b_w (turn (bs_wp b) (sc_env sc) (sc_nlocks sc) s u)) l <> w_data (b_w s) l ->
  writer_is (w_raw (b_w s) l) u = true.
Proof. exact WpData.every_schedule_data_changes_only_under_exclusive_hold. Qed.

(* non-vacuity: a schedule that parks thread 0 at a write inside its exclusive closure while thread 1 waits *)
Definition ex02 : bscen :=
  mkbs (mks 2 0 [0; 1] [] [SBoxed (SSeq [SLeaf KRw 0; SLeaf KMutex 1]); SRetry (SSeq [SLeaf KMutex 1; SLeaf KRw 0])] [] [] [] 20 [])
       false
       [[AKeyGet; AAcquire 0 Ex (FScoped true [CWrite 0; CRead 1])];
        [AKeyGet; AAcquire 1 Sh FGuard; AGuardRead 1; AGuardDrop]].
Example C02_example :
  WpMain.wfB ex02 = true /\
  let s := fst (run_sched false (sc_env (bs_sc ex02)) 2 (binit ex02) [0; 1; 0; 0]) in
  parked (get_thr (b_thr s) 0) = Some (OWrite 0 0) /\ waits_b false s 1 = Some 1.
Proof. vm_compute. auto. Qed.

Print Assumptions C02_guard_covers.
Print Assumptions C02_acquired_is_covered.
Print Assumptions C02_position_routes.
Print Assumptions C02_closure_under_hold.
Print Assumptions C02_guards_exclusive.
Print Assumptions C02_every_schedule_data_under_hold.
Print Assumptions C02_every_schedule_exclusive.
Print Assumptions C02_every_schedule_data_stable.
Print Assumptions C02_every_schedule_data_changes_only_under_exclusive_hold.
