(* Pf_C07.v — duplicate detection of the checked constructors is exact. *)
From HL Require Import Base Model Shape Algo Lemmas ShapeLemmas SortLemmas.

Lemma tref_eqb_eq a b : tref_eqb a b = true <-> a = b.
Proof.
  destruct a, b; simpl; try (split; [discriminate|intros H; inversion H]);
    rewrite Nat.eqb_eq; split; intros H; [now subst| now inversion H|now subst|now inversion H].
Qed.

Lemma raddr_taddr am r : raddr am r = taddr am (tref_of r).
Proof. destruct r; reflexivity. Qed.

Lemma get_ptrs_trefs am s : Permutation (map tref_of (get_ptrs am s)) (trefs s).
Proof.
  induction s using shape_ind'; simpl; try reflexivity; try assumption.
  - induction H as [|x r Hx Hr IH]; simpl; [reflexivity|].
    rewrite map_app. now apply Permutation_app.
  - rewrite (isort_perm (raddr am)). exact IHs.
  - rewrite (isort_perm (raddr am)). exact IHs.
Qed.

Lemma tmem_In x l : tmem x l = true <-> In x l.
Proof.
  induction l as [|y r IH]; simpl; [split; [discriminate|tauto]|].
  rewrite orb_true_iff, IH, tref_eqb_eq. split; intros [H|H]; auto.
Qed.

Lemma nodupb_NoDup l : nodupb l = true <-> NoDup l.
Proof.
  induction l as [|x r IH]; simpl; [split; [constructor|reflexivity]|].
  rewrite andb_true_iff, negb_true_iff, IH. split.
  - intros [H1 H2]. constructor; [|exact H2]. intros Hin. apply tmem_In in Hin. congruence.
  - intros H. inversion H; subst. split; [|assumption].
    destruct (tmem x r) eqn:E; [|reflexivity]. apply tmem_In in E. contradiction.
Qed.

(* distinct locks / units live at distinct addresses (no zero-sized raw locks) *)
Definition addr_inj (am : addrmap) (l : list tref) : Prop :=
  forall a b, In a l -> In b l -> taddr am a = taddr am b -> a = b.

Lemma NoDup_map_inj {A B} (f : A -> B) (l : list A) :
  (forall a b, In a l -> In b l -> f a = f b -> a = b) -> NoDup l -> NoDup (map f l).
Proof.
  induction l as [|x r IH]; intros Hinj ND; simpl; [constructor|].
  inversion ND as [|? ? Hn ND']; subst. constructor.
  - intros Hin. apply in_map_iff in Hin. destruct Hin as [y [Ey Hy]].
    assert (y = x) by (apply Hinj; [now right|now left|exact Ey]). subst. contradiction.
  - apply IH; [|exact ND']. intros a b Ha Hb. apply Hinj; now right.
Qed.

Lemma NoDup_map_inv' {A B} (f : A -> B) (l : list A) : NoDup (map f l) -> NoDup l.
Proof.
  induction l as [|x r IH]; simpl; intros H; [constructor|]. inversion H; subst.
  constructor; [|auto]. intros Hin. apply H2. now apply in_map.
Qed.

Lemma nodup_addr_iff am s :
  addr_inj am (trefs s) ->
  (NoDup (map (raddr am) (get_ptrs am s)) <-> NoDup (trefs s)).
Proof.
  intros Hinj.
  assert (E : map (raddr am) (get_ptrs am s) = map (taddr am) (map tref_of (get_ptrs am s))).
  { rewrite map_map. apply map_ext. apply raddr_taddr. }
  rewrite E. pose proof (get_ptrs_trefs am s) as Hp. split.
  - intros ND. apply NoDup_map_inv' in ND. eapply Permutation_NoDup; eauto.
  - intros ND. apply NoDup_map_inj.
    + intros a b Ha Hb. apply Hinj; eapply Permutation_in; eauto.
    + eapply Permutation_NoDup; [symmetry; exact Hp|exact ND].
Qed.

(* boxed.rs / ref.rs try_new: sort by address, look for an adjacent pair of equal addresses *)
Theorem try_new_sorting_exact am s :
  addr_inj am (trefs s) -> (try_new_sorting am s = true <-> NoDup (trefs s)).
Proof.
  intros Hinj. unfold try_new_sorting. rewrite negb_true_iff.
  rewrite <- (nodup_addr_iff am s Hinj).
  pose proof (sorted_adjdup_iff (raddr am) (isort (raddr am) (get_ptrs am s)) (isort_sorted _ _)) as H.
  assert (P : Permutation (map (raddr am) (isort (raddr am) (get_ptrs am s))) (map (raddr am) (get_ptrs am s)))
    by (apply Permutation_map, isort_perm).
  split.
  - intros Hf. destruct (adjdup (raddr am) (isort (raddr am) (get_ptrs am s))) eqn:E; [discriminate|].
    eapply Permutation_NoDup; [exact P|]. apply adjdup_false_nodup; [apply isort_sorted|exact E].
  - intros ND. destruct (adjdup (raddr am) (isort (raddr am) (get_ptrs am s))) eqn:E; [|reflexivity].
    exfalso. apply adjdup_true_dup in E. apply E. eapply Permutation_NoDup; [symmetry; exact P|exact ND].
Qed.

(* retry.rs try_new: HashSet of addresses *)
Theorem try_new_retry_exact am s :
  addr_inj am (trefs s) -> (try_new_retry am s = true <-> NoDup (trefs s)).
Proof.
  intros Hinj. unfold try_new_retry. rewrite negb_true_iff.
  rewrite <- (nodup_addr_iff am s Hinj).
  pose proof (scandup_iff (raddr am) (get_ptrs am s)) as H. split.
  - intros Hf. destruct (scandup (raddr am) [] (get_ptrs am s)) eqn:E; [discriminate|].
    apply scandup_false_iff in E. apply E.
  - intros ND. destruct (scandup (raddr am) [] (get_ptrs am s)) eqn:E; [|reflexivity].
    exfalso. apply (proj1 (scandup_iff (raddr am) (get_ptrs am s))) in E. contradiction.
Qed.

(* a duplicate-free input is accepted and yields a collection to which the acquisition theorems apply *)
Corollary try_new_usable am s :
  addr_inj am (trefs s) -> NoDup (trefs s) ->
  try_new_sorting am s = true /\ try_new_retry am s = true.
Proof. intros Hi ND. split; [now apply try_new_sorting_exact|now apply try_new_retry_exact]. Qed.
