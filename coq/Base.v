(* Base.v — identifiers, small utilities, stable insertion sort by key.  Stdlib only. *)
From Coq Require Export List Arith Bool Lia PeanoNat.
From Coq Require Export Sorting.Permutation Sorting.Sorted.
Export ListNotations.

Definition lock := nat.   (* a Mutex<T,R> / RwLock<T,R> instance (a leaf raw lock) *)
Definition tid  := nat.   (* thread *)
Definition pid  := nat.   (* a Poisonable<L> wrapper instance *)
Definition uid  := nat.   (* an OwnedLockCollection instance (one indivisible RawLock) *)

Inductive mode  := Sh | Ex.
Inductive lkind := KMutex | KRw.

Definition mode_eqb (a b : mode) : bool :=
  match a, b with Sh, Sh | Ex, Ex => true | _, _ => false end.

Definition upd {A} (f : nat -> A) (k : nat) (v : A) : nat -> A :=
  fun x => if Nat.eqb x k then v else f x.

Lemma upd_same {A} (f : nat -> A) k v : upd f k v k = v.
Proof. unfold upd. now rewrite Nat.eqb_refl. Qed.

Lemma upd_other {A} (f : nat -> A) k v x : x <> k -> upd f k v x = f x.
Proof. unfold upd. intros H. destruct (Nat.eqb_spec x k); congruence. Qed.

(* remove the first occurrence *)
Fixpoint remove1 (x : nat) (l : list nat) : list nat :=
  match l with
  | [] => []
  | y :: r => if Nat.eqb x y then r else y :: remove1 x r
  end.

Fixpoint memb (x : nat) (l : list nat) : bool :=
  match l with [] => false | y :: r => Nat.eqb x y || memb x r end.

Lemma memb_In x l : memb x l = true <-> In x l.
Proof.
  induction l as [|y r IH]; simpl; [split; [discriminate|tauto]|].
  rewrite orb_true_iff, IH, Nat.eqb_eq. split; intros [H|H]; auto.
Qed.

Definition is_nil {A} (l : list A) : bool := match l with [] => true | _ => false end.
Definition is_none {A} (o : option A) : bool := match o with None => true | _ => false end.

(* ---- stable insertion sort by a nat key (Rust: slice::sort_by_key, which is stable) ---- *)
Section Sort.
  Context {A : Type} (key : A -> nat).

  (* insert x in front of the first element whose key is >= key x *)
  Fixpoint insert (x : A) (l : list A) : list A :=
    match l with
    | [] => [x]
    | y :: r => if Nat.leb (key x) (key y) then x :: y :: r else y :: insert x r
    end.

  (* right-to-left fold: an earlier element is inserted later and lands in front of equal keys *)
  Definition isort (l : list A) : list A := fold_right insert [] l.

  (* Rust: l.windows(2).any(|w| addr_eq(w[0], w[1])) *)
  Fixpoint adjdup (l : list A) : bool :=
    match l with
    | x :: ((y :: _) as r) => Nat.eqb (key x) (key y) || adjdup r
    | _ => false
    end.

  (* Rust: HashSet insertion scan (retry.rs contains_duplicates) *)
  Fixpoint scandup (seen : list nat) (l : list A) : bool :=
    match l with
    | [] => false
    | x :: r => if memb (key x) seen then true else scandup (key x :: seen) r
    end.
End Sort.
