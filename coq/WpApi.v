(* WpApi.v — every API call in the logic of Wp.v: between two calls a thread holds exactly the locks of its live guard
   (nothing if it has none), and a thread that has a key in hand holds nothing. *)
From HL Require Import Base Model Shape Algo Api Conc OpsLemmas Lemmas ShapeLemmas Wp WpAlgo.

Definition ghold (g : guardrec) : list hold := holds_of (g_mode g) (gleaves (g_items g)).

(* the thread between two calls *)
Definition TB (lc : tlocal) (H : list hold) (K : bool) : Prop :=
  match guard lc with
  | Some g => Permutation H (ghold g) /\ haskey lc = false /\ K = true
  | None => H = [] /\ (haskey lc = true -> K = true)
  end.

Definition TBfin (x : tlocal * rcode) (H : list hold) (K : bool) : Prop :=
  TB (fst x) H K /\ (stops (snd x) = true -> H = []).

Section A.
Variable bl : list hold -> lock -> Prop.
Variable pz : Prop.
Notation wp := (wp bl pz).
Implicit Types (Qr : val -> post) (Qt QF : post) (H : list hold) (K : bool).

(* ---------------------------------------------------------------- pieces *)
Lemma wp_see_all ps H K Qr Qt QF : Qr VUnit H K -> wp (see_all ps) H K Qr Qt QF.
Proof.
  intros Q. unfold see_all. induction ps as [|p r IH]; cbn [map seqs]; [exact Q|].
  apply wp_then. cbn [Wp.wp op_]. intros b. exact IH.
Qed.

Lemma wp_poison_result s H K Qr Qt QF :
  Qr (VNat 0) H K -> Qr (VNat 2) H K -> wp (poison_result s) H K Qr Qt QF.
Proof.
  intros Q0 Q2. unfold poison_result. destruct (root_poison s); [|exact Q0].
  cbn [Wp.wp]. intros b. destruct b; cbn [vtrue]; assumption.
Qed.

(* the locks behind the positions of [items] are held in mode m *)
Definition covers (m : mode) (items : list gitem) (H : list hold) : Prop :=
  forall x, In x (gleaves items) -> In (hold_of m x) H.

Lemma covers_perm m items H : Permutation H (holds_of m (gleaves items)) -> covers m items H.
Proof.
  intros P x Hx. eapply Permutation_in; [symmetry; exact P|]. unfold holds_of. now apply in_map.
Qed.

Lemma wp_cs_prog m items o H K Qr Qt QF :
  covers m items H -> (forall v, Qr v H K) -> Qt H K -> wp (cs_prog m items o) H K Qr Qt QF.
Proof.
  intros CV Q T. destruct o as [pos|pos| |]; cbn [cs_prog].
  - destruct (nth_leaf items pos) as [[k l]|] eqn:N; [|apply Q]. cbn [Wp.wp op_]. split; [|intros n; apply Q].
    exists (hx k m). apply (CV (k, l)). unfold nth_leaf in N. now apply nth_error_In in N.
  - destruct m; [apply Q|]. destruct (nth_leaf items pos) as [[k l]|] eqn:N; [|apply Q]. cbn [Wp.wp op_]. split; [|apply Q].
    unfold nth_leaf in N. apply nth_error_In in N. specialize (CV (k, l) N). unfold hold_of in CV. cbn [fst snd] in CV.
    destruct k; exact CV.
  - exact T.
  - cbn [Wp.wp op_]. apply Q.
Qed.

Lemma wp_cs_list m items body H K Qr Qt QF :
  covers m items H -> Qr VUnit H K -> Qt H K -> wp (seqs (map (cs_prog m items) body)) H K Qr Qt QF.
Proof.
  intros CV Q T. induction body as [|o r IH]; cbn [map seqs]; [exact Q|].
  apply wp_then. apply wp_cs_prog; [exact CV|intros _; exact IH|exact T].
Qed.

Lemma wp_closure m items body H K Qr Qt QF :
  covers m items H -> Qr VUnit H K -> Qt H K -> wp (closure m items body) H K Qr Qt QF.
Proof.
  intros CV Q T. unfold closure. apply wp_then. cbn [Wp.wp op_]. apply wp_then. apply wp_see_all.
  apply wp_cs_list; assumption.
Qed.

(* a closure that contains no panic never throws: nothing is demanded of the unwind handler *)
Definition no_cpanic (body : list csop) : Prop := ~ In CPanic body.

Lemma wp_cs_prog_nt m items o H K Qr Qt QF :
  o <> CPanic -> covers m items H -> (forall v, Qr v H K) -> wp (cs_prog m items o) H K Qr Qt QF.
Proof.
  intros NP CV Q. destruct o as [pos|pos| |]; cbn [cs_prog].
  - destruct (nth_leaf items pos) as [[k l]|] eqn:N; [|apply Q]. cbn [Wp.wp op_]. split; [|intros n; apply Q].
    exists (hx k m). apply (CV (k, l)). unfold nth_leaf in N. now apply nth_error_In in N.
  - destruct m; [apply Q|]. destruct (nth_leaf items pos) as [[k l]|] eqn:N; [|apply Q]. cbn [Wp.wp op_]. split; [|apply Q].
    unfold nth_leaf in N. apply nth_error_In in N. specialize (CV (k, l) N). unfold hold_of in CV. cbn [fst snd] in CV.
    destruct k; exact CV.
  - contradiction.
  - cbn [Wp.wp op_]. apply Q.
Qed.

Lemma wp_cs_list_nt m items body H K Qr Qt QF :
  no_cpanic body -> covers m items H -> Qr VUnit H K -> wp (seqs (map (cs_prog m items) body)) H K Qr Qt QF.
Proof.
  intros NP CV Q. induction body as [|o r IH]; cbn [map seqs]; [exact Q|].
  apply wp_then. apply wp_cs_prog_nt; [intros E; apply NP; left; now symmetry|exact CV|].
  intros _. apply IH. intros X. apply NP. now right.
Qed.

Lemma wp_closure_nt m items body H K Qr Qt QF :
  no_cpanic body -> covers m items H -> Qr VUnit H K -> wp (closure m items body) H K Qr Qt QF.
Proof.
  intros NP CV Q. unfold closure. apply wp_then. cbn [Wp.wp op_]. apply wp_then. apply wp_see_all.
  apply wp_cs_list_nt; assumption.
Qed.

Lemma wp_drop_items m items : forall unw H K Qr Qt QF,
  (unw = true -> pz) ->
  sub_ok (holds_of m (gleaves items)) H ->
  Qr VUnit (rel_all (holds_of m (gleaves items)) H) K -> wp (drop_items m unw items) H K Qr Qt QF.
Proof.
  induction items as [|[k l|p] r IH]; intros unw H K Qr Qt QF Z S Q; cbn [drop_items gleaves].
  - exact Q.
  - cbn [gleaves holds_of map sub_ok rel_all fold_left] in S, Q. destruct S as [S1 S2]. destruct unw.
    + apply wp_then. cbn [Wp.wp]. apply wp_leaf_unlock; [exact S1|]. apply IH; assumption.
    + apply wp_then. cbn [Wp.wp]. apply wp_leaf_unlock; [exact S1|]. apply IH; assumption.
  - apply wp_then. destruct unw; [cbn [Wp.wp op_]; split; [now apply Z|]|cbn [Wp.wp skip]]; apply IH; assumption.
Qed.

Lemma wp_with_key (dp dd : bool) body H K Qr Qt QF :
  wp body H K (fun v H' K' => Qr v H' (if dd then false else K'))
             (fun H' K' => Qt H' (if dp then false else K')) QF ->
  wp (with_key dp dd body) H K Qr Qt QF.
Proof.
  intros W. unfold with_key. cbn [Wp.wp]. eapply wp_mono; [| | |exact W]; cbn beta.
  - intros v H' K' Q. apply wp_then. destruct dd; [cbn [Wp.wp keydrop op_]|cbn [Wp.wp skip]]; exact Q.
  - intros H' K' Q. destruct dp; [cbn [Wp.wp keydrop op_]|cbn [Wp.wp skip]]; exact Q.
  - auto.
Qed.

Lemma wp_fmt_leaf k l H K Qr Qt QF :
  Qr (VNat 0) H K -> Qr (VNat 1) H K -> wp (fmt_leaf k l) H K Qr Qt QF.
Proof.
  intros Q0 Q1. unfold fmt_leaf. cbn [Wp.wp]. apply wp_leaf_try; cbn [vtrue].
  - apply wp_then. cbn [Wp.wp op_]. split; [eexists; left; reflexivity|]. intros n. apply wp_then. apply wp_leaf_unlock; [now left|]. rewrite rem1_head. exact Q0.
  - exact Q1.
Qed.

Lemma wp_fmt_list (ls : list (lkind * lock)) : forall (acc : nat) H K Qr Qt QF,
  (forall n, Qr (VNat n) H K) -> wp (fmt_list acc ls) H K Qr Qt QF.
Proof.
  induction ls as [|[k l] r IH]; intros acc H K Qr Qt QF Q; cbn [fmt_list]; [apply Q|].
  cbn [Wp.wp]. apply wp_fmt_leaf; apply IH; exact Q.
Qed.

(* the scoped calls, from the acquisition on *)
Lemma wp_scoped_rest (m : mode) (s : shape) (a : alg) (lent : bool) (body : list csop) (acq : prog) H0 K Qr Qt QF :
  Permutation (alg_leaves a) (gleaves (gitems s)) ->
  (forall (Qr' : val -> post) (Qt' : post), (forall H', Permutation H' (holds_of m (alg_leaves a)) -> Qr' VUnit H' K) -> wp acq H0 K Qr' Qt' QF) ->
  Qr (VNat 0) [] (if lent then K else false) ->
  Qt [] (if lent then K else false) ->
  pz \/ no_cpanic body ->
  wp (scoped_rest m s a lent body acq) H0 K Qr Qt QF.
Proof.
  intros PL ACQ Q T ZN. unfold scoped_rest.
  assert (CV : forall H', Permutation H' (holds_of m (alg_leaves a)) -> covers m (gitems s) H').
  { intros H' P. apply covers_perm. rewrite P. unfold holds_of. now apply Permutation_map. }
  destruct (root_poison s) as [p|].
  - cbn [Wp.wp]. apply wp_with_key. apply wp_then. apply ACQ. intros H' P. apply wp_then. cbn [Wp.wp].
    assert (QQ : wp (raw_unlock m a) H' K (fun v H1 K1 => Qr (VNat 0) H1 (if negb lent then false else K1))
                    (fun H1 K1 => Qt H1 (if negb lent then false else K1)) QF).
    { apply wp_raw_unlock; [apply (sub_ok_perm _ _ []); now rewrite app_nil_r|]. rewrite (rel_all_perm_nil _ _ P). destruct lent; cbn [negb]; exact Q. }
    destruct ZN as [Z|NP].
    + apply wp_closure; [now apply CV|exact QQ|].
      apply wp_then. cbn [Wp.wp op_]. split; [exact Z|]. apply wp_raw_unlock; [apply (sub_ok_perm _ _ []); now rewrite app_nil_r|]. rewrite (rel_all_perm_nil _ _ P). destruct lent; cbn [negb]; exact T.
    + apply wp_closure_nt; [exact NP|now apply CV|exact QQ].
  - cbn [Wp.wp]. apply wp_with_key. apply wp_then. apply ACQ. intros H' P. cbn [Wp.wp].
    apply wp_closure; [now apply CV| |].
    + apply wp_then. apply wp_raw_unlock; [apply (sub_ok_perm _ _ []); now rewrite app_nil_r|]. rewrite (rel_all_perm_nil _ _ P). cbn [Wp.wp]. destruct lent; cbn [negb]; exact Q.
    + apply wp_raw_unlock; [apply (sub_ok_perm _ _ []); now rewrite app_nil_r|]. rewrite (rel_all_perm_nil _ _ P). destruct lent; cbn [negb]; exact T.
Qed.


End A.

Section B.
(* the blocking condition may depend on the call that is running *)
Variable blk : apiop -> list hold -> lock -> Prop.
Variable pz : Prop.
Implicit Types (Qr : val -> post) (Qt QF : post) (H : list hold) (K : bool).

(* a call in which user code does not panic: no `panic!` with a key or guard in hand, no panicking closure *)
Definition nopanic_op (o : apiop) : Prop :=
  match o with
  | APanic => False
  | AAcquire _ _ (FScoped _ body | FScopedTry _ body) => no_cpanic body
  | _ => True
  end.

(* what the scenario has to provide: every collection is an acquirable root whose blocking acquisitions satisfy the
   condition of the call that makes them *)
(* the flavours that wait: lock / read / write and scoped_lock / scoped_read; the try flavours never do *)
Definition blocking_flavour (f : flavour) : bool := match f with FGuard | FScoped _ _ => true | _ => false end.

Definition env_ok (e : env) : Prop :=
  forall c s, coll e c = Some s ->
    acquirable s = true /\ forall m f, blocking_flavour f = true -> alg_ok (blk (AAcquire c m f)) m (alg_of (e_am e) s).

Lemma tb_key lc H K : TB lc H K -> haskey lc = true -> guard lc = None /\ H = [] /\ K = true.
Proof.
  unfold TB. destruct (guard lc); intros T Hk.
  - destruct T as [_ [E _]]. congruence.
  - destruct T as [E1 E2]. auto.
Qed.

Lemma tb_guard lc g H K : TB lc H K -> guard lc = Some g -> Permutation H (ghold g) /\ haskey lc = false /\ K = true.
Proof. unfold TB. intros T E. rewrite E in T. exact T. Qed.

Lemma tb_none hk H K : H = [] -> (hk = true -> K = true) -> TB (mkt hk None) H K.
Proof. intros E1 E2. unfold TB. cbn [guard haskey]. auto. Qed.

Lemma held_perm e m s H' :
  acquirable s = true -> Permutation H' (holds_of m (alg_leaves (alg_of (e_am e) s))) ->
  Permutation H' (ghold (mkg m (gitems s))).
Proof.
  intros A P. unfold ghold. cbn [g_mode g_items]. rewrite gleaves_gitems. rewrite P. unfold holds_of, alg_leaves.
  apply Permutation_map. now apply alg_refs_leaves.
Qed.

Ltac fin_nostop := split; [|cbn [snd stops]; intros X; discriminate X].

Lemma api_wp e lc o p H K :
  env_ok e -> TB lc H K -> o <> AGuardForget -> api_prog e lc o = Some p -> pz \/ nopanic_op o ->
  Wp.wp (blk o) pz p H K (fun v H' K' => TBfin (api_fin e lc o (ODone v)) H' K')
                      (fun H' K' => TBfin (api_fin e lc o OPanic) H' K')
                      (fun H' K' => TBfin (api_fin e lc o OFuel) H' K').
Proof.
  intros EO T NF E ZN. destruct o as [| | |c m f| | | |pos|pos| |c|c|c]; cbn [api_prog] in E.
  - (* AKeyGet *) injection E as <-. cbn [Wp.wp]. cbn [api_fin]. fin_nostop. cbn [fst].
    unfold TB in *. cbn [guard haskey]. destruct (guard lc) as [g|].
    + destruct T as [P [Hk Kt]]. subst K. rewrite Hk. cbn [negb vtrue orb]. auto.
    + destruct T as [E1 _]. split; [exact E1|reflexivity].
  - (* AKeyDrop *) destruct (haskey lc) eqn:Hk; [|discriminate]. injection E as <-.
    destruct (tb_key lc H K T Hk) as [G [EH EK]]. unfold keydrop. cbn [Wp.wp op_ api_fin]. fin_nostop. cbn [fst].
    rewrite G. apply tb_none; [exact EH|discriminate].
  - (* AKeyForget *) destruct (haskey lc) eqn:Hk; [|discriminate]. injection E as <-.
    destruct (tb_key lc H K T Hk) as [G [EH EK]]. cbn [Wp.wp skip api_fin]. fin_nostop. cbn [fst].
    rewrite G. apply tb_none; [exact EH|discriminate].
  - (* AAcquire *)
    destruct (coll e c) as [s|] eqn:Ec; [|discriminate]. destruct (haskey lc) eqn:Hk; [|discriminate].
    destruct (tb_key lc H K T Hk) as [G [EH EK]]. subst H K.
    destruct (EO c s Ec) as [ACQ AOK]. specialize (AOK m f).
    assert (FUEL : forall f', TBfin (api_fin e lc (AAcquire c m f') OFuel) [] true).
    { intros f'. cbn [api_fin]. split; [|reflexivity]. cbn [fst]. destruct f'; cbn [is_lent]; apply tb_none; auto. }
    destruct f as [| |lent body|lent body]; injection E as <-.
    + (* guard *)
      apply wp_with_key. apply wp_then. apply wp_raw_lock; [apply AOK; reflexivity|apply FUEL|].
      intros H' P. apply wp_then. apply wp_see_all. apply wp_poison_result; cbn [api_fin]; rewrite Ec; fin_nostop; cbn [fst];
        unfold TB; cbn [guard haskey]; (split; [eapply held_perm; eassumption|auto]).
    + (* try *)
      apply wp_with_key. cbn [Wp.wp]. apply wp_raw_try.
      * intros H' P. rewrite app_nil_r in P. cbn [vtrue]. apply wp_then. apply wp_see_all.
        apply wp_poison_result; cbn [api_fin]; rewrite Ec; fin_nostop; cbn [fst];
          unfold TB; cbn [guard haskey]; (split; [eapply held_perm; eassumption|auto]).
      * intros H' P. apply Permutation_sym, Permutation_nil in P. subst H'. cbn [vtrue Wp.wp api_fin]. fin_nostop. exact T.
    + (* scoped *)
      apply wp_scoped_rest.
      * rewrite gleaves_gitems. now apply alg_refs_leaves.
      * intros Qr' Qt' Q. apply wp_raw_lock; [apply AOK; reflexivity|apply FUEL|exact Q].
      * cbn [api_fin]. fin_nostop. cbn [fst]. apply tb_none; [reflexivity|]. destruct lent; [reflexivity|discriminate].
      * cbn [api_fin is_lent]. fin_nostop. cbn [fst]. apply tb_none; [reflexivity|]. destruct lent; [reflexivity|discriminate].
      * exact ZN.
    + (* scoped try *)
      cbn [Wp.wp]. apply wp_with_key. apply wp_raw_try.
      * intros H' P. rewrite app_nil_r in P. cbn [vtrue]. apply wp_scoped_rest.
        -- rewrite gleaves_gitems. now apply alg_refs_leaves.
        -- intros Qr' Qt' Q. cbn [Wp.wp skip]. apply Q. exact P.
        -- cbn [api_fin]. fin_nostop. cbn [fst]. apply tb_none; [reflexivity|]. destruct lent; [reflexivity|discriminate].
        -- cbn [api_fin is_lent]. fin_nostop. cbn [fst]. apply tb_none; [reflexivity|]. destruct lent; [reflexivity|discriminate].
        -- exact ZN.
      * intros H' P. apply Permutation_sym, Permutation_nil in P. subst H'. cbn [vtrue Wp.wp api_fin]. fin_nostop. exact T.
  - (* AGuardDrop *) destruct (guard lc) as [g|] eqn:G; [|discriminate]. injection E as <-.
    destruct (tb_guard lc g H K T G) as [P [Hk Kt]]. apply wp_with_key. unfold ghold in P.
    apply wp_drop_items; [discriminate|apply (sub_ok_perm _ _ []); now rewrite app_nil_r|].
    rewrite (rel_all_perm_nil _ _ P). cbn [api_fin]. fin_nostop. cbn [fst]. apply tb_none; [reflexivity|discriminate].
  - (* AGuardUnlock *) destruct (guard lc) as [g|] eqn:G; [|discriminate]. injection E as <-.
    destruct (tb_guard lc g H K T G) as [P [Hk Kt]]. apply wp_with_key. unfold ghold in P.
    apply wp_drop_items; [discriminate|apply (sub_ok_perm _ _ []); now rewrite app_nil_r|].
    rewrite (rel_all_perm_nil _ _ P). cbn [api_fin]. fin_nostop. cbn [fst]. apply tb_none; [reflexivity|auto].
  - (* AGuardForget *) contradiction.
  - (* AGuardRead *) destruct (guard lc) as [g|] eqn:G; [|discriminate]. injection E as <-.
    destruct (tb_guard lc g H K T G) as [PG _].
    apply (wp_cs_prog _ _ (g_mode g) (g_items g) (CRead pos)); [now apply covers_perm|intros v|]; cbn [api_fin]; fin_nostop; exact T.
  - (* AGuardWrite *) destruct (guard lc) as [g|] eqn:G; [|discriminate]. injection E as <-.
    destruct (tb_guard lc g H K T G) as [PG _].
    apply (wp_cs_prog _ _ (g_mode g) (g_items g) (CWrite pos)); [now apply covers_perm|intros v|]; cbn [api_fin]; fin_nostop; exact T.
  - (* APanic *) destruct (guard lc) as [g|] eqn:G; injection E as <-; cbn [Wp.wp].
    + destruct (tb_guard lc g H K T G) as [P [Hk Kt]]. apply wp_with_key. unfold ghold in P.
      apply wp_drop_items; [intros _; destruct ZN as [Z|[]]; exact Z|apply (sub_ok_perm _ _ []); now rewrite app_nil_r|].
      rewrite (rel_all_perm_nil _ _ P). cbn [Wp.wp api_fin]. fin_nostop. cbn [fst]. apply tb_none; [reflexivity|discriminate].
    + unfold TB in T. rewrite G in T. destruct T as [EH EK]. subst H. apply wp_with_key. cbn [Wp.wp skip api_fin].
      fin_nostop. cbn [fst]. apply tb_none; [reflexivity|discriminate].
  - (* AIsPoisoned *) destruct (coll e c) as [[| | | | | |q s']|]; try discriminate. injection E as <-.
    cbn [Wp.wp]. intros b. cbn [api_fin]. fin_nostop. exact T.
  - (* AClearPoison *) destruct (coll e c) as [[| | | | | |q s']|]; try discriminate. injection E as <-.
    cbn [Wp.wp op_ api_fin]. fin_nostop. exact T.
  - (* AFmt *) destruct (coll e c) as [s|]; [|discriminate]. injection E as <-.
    apply wp_fmt_list. intros n. cbn [api_fin]. fin_nostop. exact T.
Qed.

End B.
