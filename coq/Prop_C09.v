(* Prop_C09.v — C09: a retrying collection never waits while holding, and still completes. *)
From HL Require Import Base Model Shape Algo Api Conc OpsLemmas Lemmas ShapeLemmas ApiLemmas QuietLemmas.
From HL Require Monitors BMonitors WpMain Wp09.

(* the blocking acquisition of a retrying collection, from ANY hold table of the other threads:
   - if every member is available it finishes holding every member exactly once (completion once the
     contending holders have released);
   - otherwise it ends up WAITING, and what it holds at that moment is a proper prefix of the locks of ONE
     member: nothing at all if that member is a plain lock, and only earlier locks of the same owned
     collection if the member is an owned collection.  Everything taken before was released first. *)
Theorem C09_retry_blocks_holding_nothing :
  forall t m locks, NoDup (locks_of (rsleaves locks)) ->
  forall fuel w, 2 <= fuel -> quiet w ->
    if can_all m (rsleaves locks) (w_raw w)
    then exists w', run nopw t (retry_lock m locks fuel) w = (ODone VUnit, w') /\
                    eff w w' (acq_all t m (rsleaves locks) (w_raw w))
    else exists w', run nopw t (retry_lock m locks fuel) w = (OBlocked, w') /\
                    retry_blocked t m locks w' (w_raw w).
Proof. exact run_retry_lock. Qed.

(* for members that are plain locks: while waiting the thread holds exactly what it held before the call *)
Corollary C09_leaf_members_hold_nothing :
  forall t m locks w' f0,
    (forall x, In x locks -> exists k l, x = RLeaf k l) ->
    retry_blocked t m locks w' f0 -> forall y, w_raw w' y = f0 y.
Proof.
  intros t m locks w' f0 Hleaf [x [Hin [w0 [pre [rest [Hs [Hne Hb]]]]]]] y.
  destruct (Hleaf x Hin) as [k [l ->]]. cbn [rleaves] in Hs.
  destruct pre as [|p pre']; [rewrite Hb; reflexivity|].
  destruct pre'; destruct rest; try discriminate; contradiction.
Qed.

(* the try phase never waits (every operation after the first blocking one is a try or a release) *)
Theorem C09_try_phase_nonblocking :
  forall m r, ops_in nbalg (rr_try m r).
Proof. exact rr_try_nb. Qed.

Example C09_nonvacuous :
  (* a 3-member retrying write acquisition whose last member is held by another thread waits holding nothing *)
  let locks := [RLeaf KMutex 0; RLeaf KRw 1; RLeaf KMutex 2] in
  let w := mkw (upd (fun _ => raw_free) 2 (mkraw (Some 9) [])) (fun _ => false) (fun _ => false) (fun _ => 0)
               (fun _ => false) 0 [] [] [] in
  exists w', run nopw 0 (retry_lock Ex locks 3) w = (OBlocked, w') /\ map (w_raw w') [0; 1; 2] = [raw_free; raw_free; mkraw (Some 9) []].
Proof. eexists. vm_compute. split; reflexivity. Qed.


(* ---------------------------------------------------------------- every schedule of the interleaved model *)
(* In EVERY state reached by EVERY schedule from a scenario passing the decidable test wfB09 (no ghost holds, no injected
   faults, guards dropped): a thread that waits inside the acquisition of a retrying collection (or a Poisonable around
   one) holds only locks of the waited lock's own owned unit — nothing at all when the member waited on is a plain
   lock.  Proof: the program logic of Wp.v with, as the condition checked at every blocking acquisition of such a call,
   "everything in hand belongs to the unit of the requested lock" (Wp09.v). *)
Theorem C09_every_schedule_waits_clean :
  forall b sched t k l c m f p l', Wp09.wfB09 b = true ->
  let sc := bs_sc b in
  let s := fst (run_sched (bs_wp b) (sc_env sc) (sc_nlocks sc) (binit b) sched) in
  parked (get_thr (b_thr s) t) = Some (ORaw k l) -> rop_blocking k = true ->
  th_cur (get_thr (b_thr s) t) = Some (AAcquire c m f, p) ->
  BMonitors.is_retry_root (Monitors.shape_of sc c) = true ->
  holds_b (b_w s) t l' = true -> In l' (BMonitors.unit_of (Monitors.shape_of sc c) l).
Proof. exact Wp09.every_schedule_retry_waits_clean. Qed.

(* non-vacuity: thread 1 holds lock 2; thread 0 acquires the retrying collection [0; 1; 2], takes 0 by waiting and 1 by
   try, fails on 2, releases both and is then parked on the blocking acquisition of 2 while holding nothing *)
Definition ex09 : bscen :=
  mkbs (mks 3 0 [0; 1; 2] [] [SRetry (SSeq [SLeaf KMutex 0; SLeaf KRw 1; SLeaf KMutex 2]); SLeaf KMutex 2] [] [] [] 6 [])
       false
       [[AKeyGet; AAcquire 0 Ex FGuard; AGuardDrop]; [AKeyGet; AAcquire 1 Ex FGuard; AGuardWrite 0; AGuardDrop]].
Example C09_example :
  Wp09.wfB09 ex09 = true /\
  let s := fst (run_sched false (sc_env (bs_sc ex09)) 3 (binit ex09) [1; 1; 0; 0; 0; 0; 0; 0]) in
  parked (get_thr (b_thr s) 0) = Some (ORaw OLock 2) /\ waits_b false s 0 = Some 2 /\
  map (fun l => holds_b (b_w s) 0 l) [0; 1; 2] = [false; false; false].
Proof. vm_compute. auto. Qed.

Print Assumptions C09_retry_blocks_holding_nothing.
Print Assumptions C09_leaf_members_hold_nothing.
Print Assumptions C09_every_schedule_waits_clean.
