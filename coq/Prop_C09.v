(* Prop_C09.v — C09: a retrying collection never waits while holding, and still completes. *)
From HL Require Import Base Model Shape Algo Api OpsLemmas Lemmas ShapeLemmas ApiLemmas QuietLemmas.

(* the blocking acquisition of a retrying collection, from ANY hold table of the other threads:
   - if every member is available it finishes holding every member exactly once (completion once the
     contending holders have released);
   - otherwise it ends up WAITING, and what it holds at that moment is a proper prefix of the locks of ONE
     member: nothing at all if that member is a plain lock, and only earlier locks of the same owned
     collection if the member is an owned collection.  Everything taken before was released first. *)
Theorem C09_retry_blocks_holding_nothing :
  forall t m locks, NoDup (locks_of (rsleaves locks)) ->
  forall fuel w, 2 <= fuel -> quiet w ->
    if can_all m (rsleaves locks) (w_raw w)
    then exists w', run nopw t (retry_lock m locks fuel) w = (ODone VUnit, w') /\
                    eff w w' (acq_all t m (rsleaves locks) (w_raw w))
    else exists w', run nopw t (retry_lock m locks fuel) w = (OBlocked, w') /\
                    retry_blocked t m locks w' (w_raw w).
Proof. exact run_retry_lock. Qed.

(* for members that are plain locks: while waiting the thread holds exactly what it held before the call *)
Corollary C09_leaf_members_hold_nothing :
  forall t m locks w' f0,
    (forall x, In x locks -> exists k l, x = RLeaf k l) ->
    retry_blocked t m locks w' f0 -> forall y, w_raw w' y = f0 y.
Proof.
  intros t m locks w' f0 Hleaf [x [Hin [w0 [pre [rest [Hs [Hne Hb]]]]]]] y.
  destruct (Hleaf x Hin) as [k [l ->]]. cbn [rleaves] in Hs.
  destruct pre as [|p pre']; [rewrite Hb; reflexivity|].
  destruct pre'; destruct rest; try discriminate; contradiction.
Qed.

(* the try phase never waits (every operation after the first blocking one is a try or a release) *)
Theorem C09_try_phase_nonblocking :
  forall m r, ops_in nbalg (rr_try m r).
Proof. exact rr_try_nb. Qed.

Example C09_nonvacuous :
  (* a 3-member retrying write acquisition whose last member is held by another thread waits holding nothing *)
  let locks := [RLeaf KMutex 0; RLeaf KRw 1; RLeaf KMutex 2] in
  let w := mkw (upd (fun _ => raw_free) 2 (mkraw (Some 9) [])) (fun _ => false) (fun _ => false) (fun _ => 0)
               (fun _ => false) 0 [] [] [] in
  exists w', run nopw 0 (retry_lock Ex locks 3) w = (OBlocked, w') /\ map (w_raw w') [0; 1; 2] = [raw_free; raw_free; mkraw (Some 9) []].
Proof. eexists. vm_compute. split; reflexivity. Qed.

Print Assumptions C09_retry_blocks_holding_nothing.
Print Assumptions C09_leaf_members_hold_nothing.
