(* Prop_C14.v — C14 (partial; known finding F4): the type system enforces the one-key discipline.
   The table (ApiTable.v) is regenerated from rustc's own description of /repo's API on every run. *)
From Coq Require Import List String Bool Arith Lia.
From HL Require Import ApiTable ApiModel Pf_C14.
Import ListNotations.
Open Scope string_scope.

(* the conditions K1-K4 hold of the current tree (K5 does not: finding F4) *)
Theorem C14_table_wf : wf_key_known = true.
Proof. vm_compute. reflexivity. Qed.

(* no sequence of safe public API calls, of any length, gives a thread two live key carriers (key in hand, guards):
   every function that yields a key or a guard consumes one; the only source is ThreadKey::get, which yields a key
   only when none is alive (C06) *)
Theorem C14_key_linear :
  forall ops s', crun fns trait_impls (mkc 0 0 false) ops = Some s' -> c_keys s' + c_guards s' <= 1.
Proof.
  intros ops s' H. pose proof C14_table_wf as W. unfold wf_key_known in W.
  repeat (apply andb_true_iff in W; destruct W as [W ?]).
  eapply (key_linear fns trait_impls ops (mkc 0 0 false) s'); eauto using k1_sound, k4_sound.
Qed.

(* the same for ANY table satisfying K1 and K4 *)
Theorem C14_key_linear_general :
  forall rows impls ops s s', K1 rows -> K4 rows -> c_keys s + c_guards s <= 1 ->
  crun rows impls s ops = Some s' -> c_keys s' + c_guards s' <= 1.
Proof. intros. eapply key_linear; eauto. Qed.

(* with K5, holds can never be detached from the guard that carries the key, so a usable key implies no live hold *)
Theorem C14_holds_stay_attached :
  forall rows impls ops s s', K5 impls -> c_loose s = false -> crun rows impls s ops = Some s' -> c_loose s' = false.
Proof. intros. eapply holds_stay_attached; eauto. Qed.

(* KNOWN FINDING F4: K5 fails on the current tree (LockGuard: DerefMut/AsMut to a guard structure that can be
   Default, e.g. Box<[MutexRef]>): the holds are moved out with std::mem::take, unlock(guard) hands the key back, and
   the thread owns a usable key together with live holds *)
Theorem C14_refuted_take :
  k5 = false /\
  exists ops s', crun fns trait_impls (mkc 0 0 false) ops = Some s' /\ c_keys s' = 1 /\ c_loose s' = true.
Proof.
  split; [vm_compute; reflexivity|].
  exists [OGet; OCall "BoxedLockCollection" "lock" "" false false; OTake "LockGuard" "DerefMut";
          OCall "BoxedLockCollection" "unlock" "" false true].
  eexists. vm_compute. split; [reflexivity|]. split; reflexivity.
Qed.

(* a ThreadKey never crosses threads, however it is wrapped: every type that owns a key — a key holder of the current
   tree (computed by the translator from the field types of every public struct / enum), `&mut` of, a tuple / array /
   Vec / Box containing, or any type constructor of the table that owns its argument applied to such a type, to any
   depth — is not Send, whatever raw lock the crate is instantiated with *)
Theorem C14_key_never_sent :
  forall rf t, owns_key all_rules key_holders t -> impl_auto all_rules rf MSend t = false.
Proof. intros rf t. apply key_never_sent. apply k9_holders_not_send. pose proof C14_table_wf as W. unfold wf_key_known in W.
       apply andb_true_iff in W. destruct W as [W _]. apply andb_true_iff in W. destruct W as [W _]. apply andb_true_iff in W. destruct W as [_ W]. exact W. Qed.

(* not vacuous: the error of a failed try (it hands the key back) inside a PoisonError inside a Mutex inside a Vec
   inside a boxed collection owns a key; so does a guard behind `&mut` *)
Example C14_key_never_sent_applies :
  owns_key all_rules key_holders
    (TCon "BoxedLockCollection" (TTuple [TPay true true; TCon "Mutex" (TCon "PoisonError" (TCon "TryLockPoisonableError" (TPay true true)))])) /\
  owns_key all_rules key_holders (TMutRef (TCon "MutexGuard" (TPay true false))) /\
  In "TryLockPoisonableError" key_holders.
Proof.
  split; [|split].
  - apply ok_wrap; [vm_compute; reflexivity|]. eapply ok_tuple; [right; left; reflexivity|].
    apply ok_wrap; [vm_compute; reflexivity|]. apply ok_wrap; [vm_compute; reflexivity|].
    apply ok_holder. vm_compute. tauto.
  - apply ok_mut. apply ok_holder. vm_compute. tauto.
  - vm_compute. tauto.
Qed.

Print Assumptions C14_table_wf.
Print Assumptions C14_key_never_sent.
Print Assumptions C14_key_linear.
Print Assumptions C14_holds_stay_attached.
Print Assumptions C14_refuted_take.
