(* Lemmas.v — what the algorithms of Algo.v do in worlds without injected faults and killed locks
   ("quiet" worlds): exact outcome and exact effect on the hold table.  Used by most property proofs. *)
From HL Require Import Base Model Shape Algo.

Definition St := lock -> rawst.

(* ---------------------------------------------------------------- leaf-level pure specification *)
Definition shared (k : lkind) (m : mode) : bool := match k, m with KRw, Sh => true | _, _ => false end.

Definition can1 (k : lkind) (m : mode) (s : rawst) : bool :=
  if shared k m then no_writer s else is_free s.
Definition acq1 (t : tid) (k : lkind) (m : mode) (s : rawst) : rawst :=
  if shared k m then mkraw None (t :: readers s) else mkraw (Some t) [].
Definition held1 (t : tid) (k : lkind) (m : mode) (s : rawst) : bool :=
  if shared k m then memb t (readers s) else writer_is s t.
Definition rel1 (t : tid) (k : lkind) (m : mode) (s : rawst) : rawst :=
  if shared k m then mkraw (writer s) (remove1 t (readers s)) else mkraw None (readers s).

Lemma acq_op_sh k m : acq_op k m = if shared k m then OLockSh else OLock.
Proof. destruct k, m; reflexivity. Qed.
Lemma try_op_sh k m : try_op k m = if shared k m then OTrySh else OTry.
Proof. destruct k, m; reflexivity. Qed.
Lemma rel_op_sh k m : rel_op k m = if shared k m then OUnlockSh else OUnlock.
Proof. destruct k, m; reflexivity. Qed.

Lemma raw_apply_try t k m s :
  raw_apply t (try_op k m) s false = if can1 k m s then ABool true (acq1 t k m s) else ABool false s.
Proof.
  rewrite try_op_sh. unfold can1, acq1. destruct (shared k m); simpl.
  - rewrite andb_true_r. reflexivity.
  - reflexivity.
Qed.

Lemma raw_apply_acq t k m s :
  raw_apply t (acq_op k m) s false = if can1 k m s then AOk (acq1 t k m s) else ABlock.
Proof.
  rewrite acq_op_sh. unfold can1, acq1. destruct (shared k m); simpl.
  - rewrite andb_true_r. reflexivity.
  - reflexivity.
Qed.

Lemma raw_apply_rel t k m s :
  raw_apply t (rel_op k m) s false = if held1 t k m s then AOk (rel1 t k m s) else ABad.
Proof. rewrite rel_op_sh. unfold held1, rel1. destruct (shared k m); reflexivity. Qed.

Lemma held_acq1 t k m s : held1 t k m (acq1 t k m s) = true.
Proof.
  unfold held1, acq1. destruct (shared k m); simpl.
  - now rewrite Nat.eqb_refl.
  - unfold writer_is. simpl. now rewrite Nat.eqb_refl.
Qed.

Lemma rel_acq1 t k m s : can1 k m s = true -> rel1 t k m (acq1 t k m s) = s.
Proof.
  unfold can1, rel1, acq1. destruct s as [w r]. destruct (shared k m); simpl.
  - unfold no_writer. simpl. rewrite Nat.eqb_refl. destruct w; simpl; [discriminate|reflexivity].
  - unfold is_free. simpl. destruct w; simpl; [discriminate|]. destruct r; simpl; [reflexivity|discriminate].
Qed.

(* ---------------------------------------------------------------- quiet worlds and effects *)
Definition quiet (w : world) : Prop :=
  w_f1 w = [] /\ w_fp w = [] /\ forall l, w_kill w l = false.

Definition clean_ev (e : ev) : Prop :=
  match e with ERaw _ _ _ (RBad | RFault | RBlocked) => False | _ => True end.

(* w' differs from w only in the hold table (which is f' pointwise), the operation counter and
   a trace extended by clean events *)
Record eff (w w' : world) (f' : St) : Prop := mkeff {
  eff_raw  : forall x, w_raw w' x = f' x;
  eff_kill : forall x, w_kill w' x = w_kill w x;
  eff_psn  : forall x, w_psn w' x = w_psn w x;
  eff_keyf : forall x, w_keyf w' x = w_keyf w x;
  eff_f1   : w_f1 w' = w_f1 w;
  eff_fp   : w_fp w' = w_fp w;
  eff_tr   : exists evs, w_trace w' = evs ++ w_trace w /\ Forall clean_ev evs
}.

Lemma eff_refl w : eff w w (w_raw w).
Proof. constructor; auto. exists []. split; auto. Qed.

Lemma eff_quiet w w' f : eff w w' f -> quiet w -> quiet w'.
Proof.
  intros E [H1 [H2 H3]]. repeat split.
  - rewrite (eff_f1 _ _ _ E). exact H1.
  - rewrite (eff_fp _ _ _ E). exact H2.
  - intros l. rewrite (eff_kill _ _ _ E). apply H3.
Qed.

Lemma eff_trans w w1 w2 f1 f2 : eff w w1 f1 -> eff w1 w2 f2 -> eff w w2 f2.
Proof.
  intros A B. constructor.
  - apply (eff_raw _ _ _ B).
  - intros x. rewrite (eff_kill _ _ _ B). apply (eff_kill _ _ _ A).
  - intros x. rewrite (eff_psn _ _ _ B). apply (eff_psn _ _ _ A).
  - intros x. rewrite (eff_keyf _ _ _ B). apply (eff_keyf _ _ _ A).
  - rewrite (eff_f1 _ _ _ B). apply (eff_f1 _ _ _ A).
  - rewrite (eff_fp _ _ _ B). apply (eff_fp _ _ _ A).
  - destruct (eff_tr _ _ _ A) as [e1 [T1 F1]]. destruct (eff_tr _ _ _ B) as [e2 [T2 F2]].
    exists (e2 ++ e1). split.
    + rewrite T2, T1. now rewrite app_assoc.
    + apply Forall_app. split; assumption.
Qed.

Lemma eff_ext w w' f g : eff w w' f -> (forall x, f x = g x) -> eff w w' g.
Proof. intros E H. destruct E. constructor; auto. intros x. now rewrite <- H. Qed.

Lemma quiet_not_faulty w k l : quiet w -> faulty w k l = false.
Proof. intros [H1 [H2 _]]. unfold faulty. now rewrite H1, H2. Qed.

(* ---------------------------------------------------------------- generic facts about run *)
Lemma run_bind pw t m k w :
  run pw t (Bind m k) w =
  match run pw t m w with (ODone v, w') => run pw t (k v) w' | r => r end.
Proof. reflexivity. Qed.

Lemma run_then_done pw t a b w v w' :
  run pw t a w = (ODone v, w') -> run pw t (a ;; b) w = run pw t b w'.
Proof. intros H. unfold pthen. simpl. now rewrite H. Qed.

Lemma run_catch_done pw t b h w v w' :
  run pw t b w = (ODone v, w') -> run pw t (Catch b h) w = (ODone v, w').
Proof. intros H. simpl. now rewrite H. Qed.

Lemma run_catch_blocked pw t b h w w' :
  run pw t b w = (OBlocked, w') -> run pw t (Catch b h) w = (OBlocked, w').
Proof. intros H. simpl. now rewrite H. Qed.

(* ---------------------------------------------------------------- single locks *)
Section Leaf.
  Variables (t : tid) (m : mode) (k : lkind) (l : lock) (w : world).
  Hypothesis Q : quiet w.

  Definition after_raw (s' : rawst) (e : ev) : world := emit (tick (set_raw w l s')) e.

  Lemma eff_after_raw s' e : clean_ev e -> eff w (after_raw s' e) (upd (w_raw w) l s').
  Proof.
    intros C. constructor; simpl; auto. exists [e]. split; auto.
  Qed.

  Lemma run_leaf_try :
    run nopw t (leaf_try m k l) w =
    if can1 k m (w_raw w l)
    then (ODone (VBool true), after_raw (acq1 t k m (w_raw w l)) (ERaw t (try_op k m) l (RBool true)))
    else (ODone (VBool false), after_raw (w_raw w l) (ERaw t (try_op k m) l (RBool false))).
  Proof.
    destruct Q as [_ [_ HK]]. unfold leaf_try. simpl. rewrite HK. simpl.
    rewrite (quiet_not_faulty w _ _ Q). unfold nopw. rewrite raw_apply_try.
    destruct (can1 k m (w_raw w l)); reflexivity.
  Qed.

  Lemma run_leaf_lock :
    run nopw t (leaf_lock m k l) w =
    if can1 k m (w_raw w l)
    then (ODone VUnit, after_raw (acq1 t k m (w_raw w l)) (ERaw t (acq_op k m) l RUnit))
    else (OBlocked, emit w (ERaw t (acq_op k m) l RBlocked)).
  Proof.
    destruct Q as [_ [_ HK]]. unfold leaf_lock. simpl. rewrite HK. simpl.
    rewrite (quiet_not_faulty w _ _ Q). unfold nopw. rewrite raw_apply_acq.
    destruct (can1 k m (w_raw w l)); reflexivity.
  Qed.

  Lemma run_leaf_unlock :
    held1 t k m (w_raw w l) = true ->
    run nopw t (leaf_unlock m k l) w =
    (ODone VUnit, after_raw (rel1 t k m (w_raw w l)) (ERaw t (rel_op k m) l RUnit)).
  Proof.
    intros H. unfold leaf_unlock. simpl.
    rewrite (quiet_not_faulty w _ _ Q). unfold nopw. rewrite raw_apply_rel, H. reflexivity.
  Qed.
End Leaf.

(* ---------------------------------------------------------------- lists of leaves: pure specification *)
Definition lk := (lkind * lock)%type.

Fixpoint acq_all (t : tid) (m : mode) (ls : list lk) (f : St) : St :=
  match ls with
  | [] => f
  | (k, l) :: r => acq_all t m r (upd f l (acq1 t k m (f l)))
  end.

Fixpoint rel_all (t : tid) (m : mode) (ls : list lk) (f : St) : St :=
  match ls with
  | [] => f
  | (k, l) :: r => rel_all t m r (upd f l (rel1 t k m (f l)))
  end.

Definition can_all (m : mode) (ls : list lk) (f : St) : bool :=
  forallb (fun x : lk => can1 (fst x) m (f (snd x))) ls.

Definition held_all (t : tid) (m : mode) (ls : list lk) (f : St) : bool :=
  forallb (fun x : lk => held1 t (fst x) m (f (snd x))) ls.

Definition locks_of (ls : list lk) : list lock := map snd ls.

Lemma acq_all_other t m ls f x : ~ In x (locks_of ls) -> acq_all t m ls f x = f x.
Proof.
  revert f. induction ls as [|[k l] r IH]; intros f H; simpl; [reflexivity|].
  simpl in H. rewrite IH by tauto. apply upd_other. intros E. apply H. left. now symmetry.
Qed.

Lemma rel_all_other t m ls f x : ~ In x (locks_of ls) -> rel_all t m ls f x = f x.
Proof.
  revert f. induction ls as [|[k l] r IH]; intros f H; simpl; [reflexivity|].
  simpl in H. rewrite IH by tauto. apply upd_other. intros E. apply H. left. now symmetry.
Qed.

Lemma acq_all_ext t m ls f g : (forall x, f x = g x) -> forall x, acq_all t m ls f x = acq_all t m ls g x.
Proof.
  revert f g. induction ls as [|[k l] r IH]; intros f g H x; simpl; [apply H|].
  apply IH. intros y. unfold upd. destruct (Nat.eqb y l); [now rewrite H|apply H].
Qed.

Lemma rel_all_ext t m ls f g : (forall x, f x = g x) -> forall x, rel_all t m ls f x = rel_all t m ls g x.
Proof.
  revert f g. induction ls as [|[k l] r IH]; intros f g H x; simpl; [apply H|].
  apply IH. intros y. unfold upd. destruct (Nat.eqb y l); [now rewrite H|apply H].
Qed.

Lemma forallb_ext_in' {A} (p q : A -> bool) (l : list A) :
  (forall x, In x l -> p x = q x) -> forallb p l = forallb q l.
Proof.
  induction l as [|a r IH]; intros H; simpl; [reflexivity|].
  rewrite H by (left; reflexivity). rewrite IH; [reflexivity|]. intros x Hx. apply H. now right.
Qed.

Lemma can_all_ext m ls f g : (forall x, In x (locks_of ls) -> f x = g x) -> can_all m ls f = can_all m ls g.
Proof.
  unfold can_all. intros H. apply forallb_ext_in'. intros [k l] Hin. simpl.
  rewrite H; [reflexivity|]. unfold locks_of. now apply (in_map snd) in Hin.
Qed.

Lemma held_all_ext t m ls f g : (forall x, In x (locks_of ls) -> f x = g x) -> held_all t m ls f = held_all t m ls g.
Proof.
  unfold held_all. intros H. apply forallb_ext_in'. intros [k l] Hin. simpl.
  rewrite H; [reflexivity|]. unfold locks_of. now apply (in_map snd) in Hin.
Qed.

Lemma acq_all_app t m a b f : forall x, acq_all t m (a ++ b) f x = acq_all t m b (acq_all t m a f) x.
Proof. revert f. induction a as [|[k l] r IH]; intros f x; simpl; [reflexivity|apply IH]. Qed.

Lemma rel_all_app t m a b f : forall x, rel_all t m (a ++ b) f x = rel_all t m b (rel_all t m a f) x.
Proof. revert f. induction a as [|[k l] r IH]; intros f x; simpl; [reflexivity|apply IH]. Qed.

(* after acquiring a duplicate-free list, every lock of it is held *)
Lemma held_after_acq t m ls f :
  NoDup (locks_of ls) -> held_all t m ls (acq_all t m ls f) = true.
Proof.
  revert f. induction ls as [|[k l] r IH]; intros f ND; simpl; [reflexivity|].
  inversion ND as [|? ? Hn ND']; subst. apply andb_true_iff. split.
  - rewrite acq_all_other by exact Hn. rewrite upd_same. apply held_acq1.
  - apply IH. exact ND'.
Qed.

Lemma acq_all_in t m ls f k l :
  NoDup (locks_of ls) -> In (k, l) ls -> acq_all t m ls f l = acq1 t k m (f l).
Proof.
  revert f. induction ls as [|[k0 l0] r IH]; intros f ND Hin; simpl; [destruct Hin|].
  inversion ND as [|? ? Hn ND']; subst. destruct Hin as [E|Hin].
  - inversion E; subst. rewrite acq_all_other by exact Hn. apply upd_same.
  - rewrite IH by assumption. rewrite upd_other; [reflexivity|].
    intros ->. apply Hn. unfold locks_of. now apply (in_map snd) in Hin.
Qed.

Lemma rel_all_in t m ls f k l :
  NoDup (locks_of ls) -> In (k, l) ls -> rel_all t m ls f l = rel1 t k m (f l).
Proof.
  revert f. induction ls as [|[k0 l0] r IH]; intros f ND Hin; simpl; [destruct Hin|].
  inversion ND as [|? ? Hn ND']; subst. destruct Hin as [E|Hin].
  - inversion E; subst. rewrite rel_all_other by exact Hn. apply upd_same.
  - rewrite IH by assumption. rewrite upd_other; [reflexivity|].
    intros ->. apply Hn. unfold locks_of. now apply (in_map snd) in Hin.
Qed.

Lemma in_locks_of ls x : In x (locks_of ls) -> exists k, In (k, x) ls.
Proof.
  unfold locks_of. intros H. apply in_map_iff in H. destruct H as [[k l] [E H]]. simpl in E. subst.
  now exists k.
Qed.

(* releasing what was just acquired restores the hold table *)
Lemma rel_acq_all t m ls f :
  NoDup (locks_of ls) -> can_all m ls f = true -> forall x, rel_all t m ls (acq_all t m ls f) x = f x.
Proof.
  intros ND C x. destruct (in_dec Nat.eq_dec x (locks_of ls)) as [Hin|Hn].
  - destruct (in_locks_of _ _ Hin) as [k Hk].
    rewrite (rel_all_in t m ls _ k x ND Hk). rewrite (acq_all_in t m ls f k x ND Hk).
    apply rel_acq1. unfold can_all in C. rewrite forallb_forall in C. apply (C (k, x) Hk).
  - rewrite rel_all_other by exact Hn. now apply acq_all_other.
Qed.

Lemma held_all_in t m ls f k l : held_all t m ls f = true -> In (k, l) ls -> held1 t k m (f l) = true.
Proof. unfold held_all. rewrite forallb_forall. intros H Hin. apply (H (k, l) Hin). Qed.

(* ---------------------------------------------------------------- induction principle for rawref *)
Section RawrefInd.
  Variable P : rawref -> Prop.
  Hypothesis Hleaf : forall k l, P (RLeaf k l).
  Hypothesis Howned : forall u inner, Forall P inner -> P (ROwned u inner).
  Fixpoint rawref_ind' (r : rawref) : P r :=
    match r with
    | RLeaf k l => Hleaf k l
    | ROwned u inner =>
        Howned u inner ((fix go (l : list rawref) : Forall P l :=
                           match l with
                           | [] => Forall_nil _
                           | x :: xs => Forall_cons _ (rawref_ind' x) (go xs)
                           end) inner)
    end.
End RawrefInd.

Lemma rsleaves_cons x r : rsleaves (x :: r) = rleaves x ++ rsleaves r.
Proof. reflexivity. Qed.
Lemma rsleaves_app a b : rsleaves (a ++ b) = rsleaves a ++ rsleaves b.
Proof. unfold rsleaves. apply flat_map_app. Qed.
Lemma rsleaves_one x : rsleaves [x] = rleaves x.
Proof. unfold rsleaves. simpl. apply app_nil_r. Qed.
Lemma locks_of_app a b : locks_of (a ++ b) = locks_of a ++ locks_of b.
Proof. unfold locks_of. apply map_app. Qed.

Lemma NoDup_app_l {A} (a b : list A) : NoDup (a ++ b) -> NoDup a.
Proof. induction a as [|x a IH]; simpl; intros H; [constructor|]. inversion H; subst. constructor; [|auto].
  intros Hin. apply H2. apply in_or_app. now left. Qed.
Lemma NoDup_app_r {A} (a b : list A) : NoDup (a ++ b) -> NoDup b.
Proof. induction a as [|x a IH]; simpl; intros H; [exact H|]. inversion H; subst. auto. Qed.
Lemma NoDup_app_disj {A} (a b : list A) x : NoDup (a ++ b) -> In x a -> ~ In x b.
Proof. induction a as [|y a IH]; simpl; intros H Hin; [destruct Hin|]. inversion H; subst.
  destruct Hin as [->|Hin]; [|auto]. intros Hb. apply H2. apply in_or_app. now right. Qed.

Lemma can_all_app m a b f : can_all m (a ++ b) f = can_all m a f && can_all m b f.
Proof. unfold can_all. apply forallb_app. Qed.
Lemma held_all_app t m a b f : held_all t m (a ++ b) f = held_all t m a f && held_all t m b f.
Proof. unfold held_all. apply forallb_app. Qed.

Section Lists.
  Variables (t : tid) (m : mode).

  (* ------------------------------------------------------------ releasing *)
  Definition Punlock (r : rawref) : Prop :=
    forall w, quiet w -> NoDup (locks_of (rleaves r)) -> held_all t m (rleaves r) (w_raw w) = true ->
    exists w', run nopw t (rr_unlock m r) w = (ODone VUnit, w') /\ eff w w' (rel_all t m (rleaves r) (w_raw w)).

  Lemma run_unlock_list rs :
    Forall Punlock rs ->
    forall w, quiet w -> NoDup (locks_of (rsleaves rs)) -> held_all t m (rsleaves rs) (w_raw w) = true ->
    exists w', run nopw t (seqs (map (rr_unlock m) rs)) w = (ODone VUnit, w') /\
               eff w w' (rel_all t m (rsleaves rs) (w_raw w)).
  Proof.
    induction 1 as [|x r Hx Hr IH]; intros w Q ND H.
    - exists w. split; [reflexivity|apply eff_refl].
    - rewrite rsleaves_cons in *. rewrite locks_of_app in ND. rewrite held_all_app in H.
      apply andb_true_iff in H. destruct H as [H1 H2].
      destruct (Hx w Q (NoDup_app_l _ _ ND) H1) as [w1 [R1 E1]].
      assert (Q1 : quiet w1) by (eapply eff_quiet; eauto).
      assert (H2' : held_all t m (rsleaves r) (w_raw w1) = true).
      { rewrite <- H2. apply held_all_ext. intros y Hy. rewrite (eff_raw _ _ _ E1).
        apply rel_all_other. intros Hin. eapply NoDup_app_disj; eauto. }
      destruct (IH w1 Q1 (NoDup_app_r _ _ ND) H2') as [w2 [R2 E2]].
      exists w2. split.
      + cbn [map seqs]. rewrite (run_then_done _ _ _ _ _ _ _ R1). exact R2.
      + eapply eff_ext; [eapply eff_trans; eauto|]. intros y. rewrite rel_all_app.
        apply rel_all_ext. apply (eff_raw _ _ _ E1).
  Qed.

  Lemma run_rr_unlock r : Punlock r.
  Proof.
    induction r as [k l|u inner IH] using rawref_ind'; intros w Q ND H.
    - unfold held_all in H. simpl in H. rewrite andb_true_r in H.
      change (rr_unlock m (RLeaf k l)) with (leaf_unlock m k l).
      rewrite (run_leaf_unlock t m k l w Q H).
      eexists. split; [reflexivity|]. cbn [rleaves rel_all]. apply eff_after_raw. exact I.
    - change (rr_unlock m (ROwned u inner)) with (seqs (map (rr_unlock m) inner)).
      apply (run_unlock_list inner IH w Q ND H).
  Qed.

  Lemma run_unlock_all rs w :
    quiet w -> NoDup (locks_of (rsleaves rs)) -> held_all t m (rsleaves rs) (w_raw w) = true ->
    exists w', run nopw t (seqs (map (rr_unlock m) rs)) w = (ODone VUnit, w') /\
               eff w w' (rel_all t m (rsleaves rs) (w_raw w)).
  Proof. apply run_unlock_list. apply Forall_forall. intros x _. apply run_rr_unlock. Qed.

  (* recover = Catch (unlock all) (poison all): the handler is dead when nothing panics *)
  Lemma run_recover rs w :
    quiet w -> NoDup (locks_of (rsleaves rs)) -> held_all t m (rsleaves rs) (w_raw w) = true ->
    exists w', run nopw t (recover m rs) w = (ODone VUnit, w') /\
               eff w w' (rel_all t m (rsleaves rs) (w_raw w)).
  Proof.
    intros Q ND H. destruct (run_unlock_all rs w Q ND H) as [w' [R E]].
    exists w'. split; [|exact E]. unfold recover. apply (run_catch_done _ _ _ _ _ _ _ R).
  Qed.

  (* ------------------------------------------------------------ try-acquiring *)
  Definition Ptry (tr : rawref -> prog) (r : rawref) : Prop :=
    forall w, quiet w -> NoDup (locks_of (rleaves r)) ->
    exists w', run nopw t (tr r) w = (ODone (VBool (can_all m (rleaves r) (w_raw w))), w') /\
               eff w w' (if can_all m (rleaves r) (w_raw w) then acq_all t m (rleaves r) (w_raw w) else w_raw w).

  Section TryList.
    Variable tr : rawref -> prog.
    (* the two try loops differ only in how they roll back *)
    Variable rollback : list rawref -> prog.
    Hypothesis rollback_ok : forall rs w,
      quiet w -> NoDup (locks_of (rsleaves rs)) -> held_all t m (rsleaves rs) (w_raw w) = true ->
      exists w', run nopw t (rollback rs) w = (ODone VUnit, w') /\
                 eff w w' (rel_all t m (rsleaves rs) (w_raw w)).
    Variable loop : list rawref -> list rawref -> prog.
    Hypothesis loop_nil : forall done, loop done [] = Ret (VBool true).
    Hypothesis loop_cons : forall done x r,
      loop done (x :: r) =
      Bind (Catch (tr x) (recover m done))
           (fun v => if vtrue v then loop (done ++ [x]) r else rollback done ;; Ret (VBool false)).

    Lemma run_try_loop todo :
      Forall (Ptry tr) todo ->
      forall done w f0,
        quiet w -> NoDup (locks_of (rsleaves (done ++ todo))) ->
        (forall x, w_raw w x = acq_all t m (rsleaves done) f0 x) ->
        can_all m (rsleaves done) f0 = true ->
        exists w', run nopw t (loop done todo) w = (ODone (VBool (can_all m (rsleaves todo) f0)), w') /\
                   eff w w' (if can_all m (rsleaves todo) f0 then acq_all t m (rsleaves (done ++ todo)) f0 else f0).
    Proof.
      induction 1 as [|x r Hx Hr IH]; intros done w f0 Q ND Hw Cd.
      - rewrite loop_nil. exists w. split; [reflexivity|]. simpl. rewrite app_nil_r.
        eapply eff_ext; [apply eff_refl|]. exact Hw.
      - rewrite loop_cons. rewrite rsleaves_app, rsleaves_cons, locks_of_app, locks_of_app in ND.
        assert (NDx : NoDup (locks_of (rleaves x))) by (eapply NoDup_app_l, NoDup_app_r; eauto).
        destruct (Hx w Q NDx) as [w1 [R1 E1]].
        (* on the locks of x the current table agrees with the original one *)
        assert (Hfx : forall y, In y (locks_of (rleaves x)) -> w_raw w y = f0 y).
        { intros y Hy. rewrite Hw. apply acq_all_other. intros Hin.
          eapply NoDup_app_disj; [exact ND|exact Hin|]. apply in_or_app. now left. }
        rewrite (can_all_ext m (rleaves x) (w_raw w) f0 Hfx) in R1, E1.
        assert (Q1 : quiet w1) by (eapply eff_quiet; eauto).
        rewrite run_bind. rewrite (run_catch_done _ _ _ _ _ _ _ R1).
        rewrite rsleaves_cons, can_all_app.
        destruct (can_all m (rleaves x) f0) eqn:Cx; cbn [vtrue andb].
        + (* x acquired: continue with done ++ [x] *)
          assert (ND' : NoDup (locks_of (rsleaves ((done ++ [x]) ++ r)))).
          { rewrite <- app_assoc. simpl. rewrite rsleaves_app, rsleaves_cons, !locks_of_app. exact ND. }
          assert (Hw1 : forall y, w_raw w1 y = acq_all t m (rsleaves (done ++ [x])) f0 y).
          { intros y. rewrite (eff_raw _ _ _ E1). rewrite rsleaves_app, rsleaves_one, acq_all_app.
            apply acq_all_ext. exact Hw. }
          assert (Cd' : can_all m (rsleaves (done ++ [x])) f0 = true).
          { rewrite rsleaves_app, rsleaves_one, can_all_app, Cd, Cx. reflexivity. }
          destruct (IH (done ++ [x]) w1 f0 Q1 ND' Hw1 Cd') as [w2 [R2 E2]].
          exists w2. split; [exact R2|].
          rewrite <- app_assoc in E2. simpl in E2. eapply eff_trans; eauto.
        + (* x refused: roll back what was taken *)
          assert (NDd : NoDup (locks_of (rsleaves done))) by (eapply NoDup_app_l; eauto).
          assert (Hh : held_all t m (rsleaves done) (w_raw w1) = true).
          { rewrite (held_all_ext t m _ _ (acq_all t m (rsleaves done) f0)).
            - now apply held_after_acq.
            - intros y _. rewrite (eff_raw _ _ _ E1). apply Hw. }
          destruct (rollback_ok done w1 Q1 NDd Hh) as [w2 [R2 E2]].
          exists w2. split.
          * rewrite (run_then_done _ _ _ _ _ _ _ R2). reflexivity.
          * eapply eff_ext; [eapply eff_trans; eauto|]. intros y.
            rewrite (rel_all_ext t m _ _ (acq_all t m (rsleaves done) f0)).
            -- now apply rel_acq_all.
            -- intros z. rewrite (eff_raw _ _ _ E1). apply Hw.
    Qed.
  End TryList.

  Lemma rollback_plain rs w :
    quiet w -> NoDup (locks_of (rsleaves rs)) -> held_all t m (rsleaves rs) (w_raw w) = true ->
    exists w', run nopw t (Catch (seqs (map (rr_unlock m) rs)) (recover m rs)) w = (ODone VUnit, w') /\
               eff w w' (rel_all t m (rsleaves rs) (w_raw w)).
  Proof.
    intros Q ND H. destruct (run_unlock_all rs w Q ND H) as [w' [R E]].
    exists w'. split; [|exact E]. apply (run_catch_done _ _ _ _ _ _ _ R).
  Qed.

  Lemma rollback_recover rs w :
    quiet w -> NoDup (locks_of (rsleaves rs)) -> held_all t m (rsleaves rs) (w_raw w) = true ->
    exists w', run nopw t (Catch (recover m rs) (recover m rs)) w = (ODone VUnit, w') /\
               eff w w' (rel_all t m (rsleaves rs) (w_raw w)).
  Proof.
    intros Q ND H. destruct (run_recover rs w Q ND H) as [w' [R E]].
    exists w'. split; [|exact E]. apply (run_catch_done _ _ _ _ _ _ _ R).
  Qed.

  Lemma run_rr_try r : Ptry (rr_try m) r.
  Proof.
    induction r as [k l|u inner IH] using rawref_ind'; intros w Q ND.
    - change (rr_try m (RLeaf k l)) with (leaf_try m k l). unfold can_all. cbn [rleaves forallb fst snd acq_all].
      rewrite andb_true_r. rewrite (run_leaf_try t m k l w Q).
      destruct (can1 k m (w_raw w l)); eexists; (split; [reflexivity|]).
      + apply eff_after_raw. exact I.
      + eapply eff_ext; [apply eff_after_raw; exact I|]. intros x. unfold upd.
        destruct (Nat.eqb_spec x l); [now subst|reflexivity].
    - change (rr_try m (ROwned u inner)) with (ordered_try_from m (rr_try m) [] inner).
      change (rleaves (ROwned u inner)) with (rsleaves inner) in *.
      destruct (run_try_loop (rr_try m) (fun d => Catch (seqs (map (rr_unlock m) d)) (recover m d))
                  rollback_plain (ordered_try_from m (rr_try m))
                  (fun _ => eq_refl) (fun _ _ _ => eq_refl) inner IH [] w (w_raw w) Q ND
                  (fun _ => eq_refl) eq_refl) as [w' [R E]].
      exists w'. split; [exact R|exact E].
  Qed.

  Lemma run_ordered_try rs w :
    quiet w -> NoDup (locks_of (rsleaves rs)) ->
    exists w', run nopw t (ordered_try m rs) w = (ODone (VBool (can_all m (rsleaves rs) (w_raw w))), w') /\
               eff w w' (if can_all m (rsleaves rs) (w_raw w) then acq_all t m (rsleaves rs) (w_raw w) else w_raw w).
  Proof.
    intros Q ND.
    apply (run_try_loop (rr_try m) (fun d => Catch (seqs (map (rr_unlock m) d)) (recover m d))
             rollback_plain (ordered_try_from m (rr_try m))
             (fun _ => eq_refl) (fun _ _ _ => eq_refl) rs
             (proj2 (Forall_forall _ _) (fun x _ => run_rr_try x)) [] w (w_raw w) Q ND
             (fun _ => eq_refl) eq_refl).
  Qed.

  Lemma run_retry_try rs w :
    quiet w -> NoDup (locks_of (rsleaves rs)) ->
    exists w', run nopw t (retry_try m rs) w = (ODone (VBool (can_all m (rsleaves rs) (w_raw w))), w') /\
               eff w w' (if can_all m (rsleaves rs) (w_raw w) then acq_all t m (rsleaves rs) (w_raw w) else w_raw w).
  Proof.
    intros Q ND. destruct rs as [|x r].
    - exists w. split; [reflexivity|apply eff_refl].
    - unfold retry_try.
      apply (run_try_loop (rr_try m) (fun d => Catch (recover m d) (recover m d))
               rollback_recover (retry_try_from m (rr_try m))
               (fun _ => eq_refl) (fun _ _ _ => eq_refl) (x :: r)
               (proj2 (Forall_forall _ _) (fun x _ => run_rr_try x)) [] w (w_raw w) Q ND
               (fun _ => eq_refl) eq_refl).
  Qed.
End Lists.

(* ---------------------------------------------------------------- blocking acquisition, with its exact trace *)
Lemma run_then_blocked pw t a b w w' :
  run pw t a w = (OBlocked, w') -> run pw t (a ;; b) w = (OBlocked, w').
Proof. intros H. unfold pthen. simpl. now rewrite H. Qed.

Definition acq_ev (t : tid) (m : mode) (x : lk) : ev := ERaw t (acq_op (fst x) m) (snd x) RUnit.

Section Lock.
  Variables (t : tid) (m : mode).

  (* when the acquisition has to wait, what it holds is a proper prefix of its own leaves *)
  Definition blocked_at (w w' : world) (f0 : St) (base ls : list lk) : Prop :=
    exists pre rest, ls = pre ++ rest /\ rest <> [] /\
                     forall y, w_raw w' y = acq_all t m (base ++ pre) f0 y.

  Definition Plock (r : rawref) : Prop :=
    forall w, quiet w -> NoDup (locks_of (rleaves r)) ->
    if can_all m (rleaves r) (w_raw w)
    then exists w', run nopw t (rr_lock m r) w = (ODone VUnit, w') /\
                    eff w w' (acq_all t m (rleaves r) (w_raw w)) /\
                    w_trace w' = rev (map (acq_ev t m) (rleaves r)) ++ w_trace w
    else exists w', run nopw t (rr_lock m r) w = (OBlocked, w') /\ blocked_at w w' (w_raw w) [] (rleaves r).

  Lemma run_lock_loop todo :
    Forall Plock todo ->
    forall done w f0,
      quiet w -> NoDup (locks_of (rsleaves (done ++ todo))) ->
      (forall x, w_raw w x = acq_all t m (rsleaves done) f0 x) ->
      if can_all m (rsleaves todo) f0
      then exists w', run nopw t (ordered_lock_from m (rr_lock m) done todo) w = (ODone VUnit, w') /\
                      eff w w' (acq_all t m (rsleaves (done ++ todo)) f0) /\
                      w_trace w' = rev (map (acq_ev t m) (rsleaves todo)) ++ w_trace w
      else exists w', run nopw t (ordered_lock_from m (rr_lock m) done todo) w = (OBlocked, w') /\
                      blocked_at w w' f0 (rsleaves done) (rsleaves todo).
  Proof.
    induction 1 as [|x r Hx Hr IH]; intros done w f0 Q ND Hw.
    - cbn [rsleaves flat_map can_all forallb]. exists w. split; [reflexivity|]. split.
      + rewrite app_nil_r. eapply eff_ext; [apply eff_refl|]. exact Hw.
      + reflexivity.
    - cbn [ordered_lock_from]. rewrite rsleaves_app, rsleaves_cons, locks_of_app, locks_of_app in ND.
      assert (NDx : NoDup (locks_of (rleaves x))) by (eapply NoDup_app_l, NoDup_app_r; eauto).
      assert (Hfx : forall y, In y (locks_of (rleaves x)) -> w_raw w y = f0 y).
      { intros y Hy. rewrite Hw. apply acq_all_other. intros Hin.
        eapply NoDup_app_disj; [exact ND|exact Hin|]. apply in_or_app. now left. }
      specialize (Hx w Q NDx). rewrite (can_all_ext m (rleaves x) (w_raw w) f0 Hfx) in Hx.
      rewrite rsleaves_cons, can_all_app.
      destruct (can_all m (rleaves x) f0) eqn:Cx; cbn [andb].
      + destruct Hx as [w1 [R1 [E1 T1]]].
        assert (Q1 : quiet w1) by (eapply eff_quiet; eauto).
        assert (ND' : NoDup (locks_of (rsleaves ((done ++ [x]) ++ r)))).
        { rewrite <- app_assoc. simpl. rewrite rsleaves_app, rsleaves_cons, !locks_of_app. exact ND. }
        assert (Hw1 : forall y, w_raw w1 y = acq_all t m (rsleaves (done ++ [x])) f0 y).
        { intros y. rewrite (eff_raw _ _ _ E1). rewrite rsleaves_app, rsleaves_one, acq_all_app.
          apply acq_all_ext. exact Hw. }
        specialize (IH (done ++ [x]) w1 f0 Q1 ND' Hw1).
        destruct (can_all m (rsleaves r) f0).
        * destruct IH as [w2 [R2 [E2 T2]]]. exists w2. split; [|split].
          -- rewrite (run_then_done _ _ _ _ _ VUnit w1); [exact R2|]. apply (run_catch_done _ _ _ _ _ _ _ R1).
          -- rewrite <- app_assoc in E2. simpl in E2. eapply eff_trans; eauto.
          -- rewrite T2, T1. rewrite map_app, rev_app_distr, app_assoc. reflexivity.
        * destruct IH as [w2 [R2 [pre [rest [Hs [Hne Hb]]]]]]. exists w2. split.
          -- rewrite (run_then_done _ _ _ _ _ VUnit w1); [exact R2|]. apply (run_catch_done _ _ _ _ _ _ _ R1).
          -- exists (rleaves x ++ pre), rest. split; [rewrite Hs; now rewrite app_assoc|]. split; [exact Hne|].
             intros y. rewrite Hb. rewrite rsleaves_app, rsleaves_one. now rewrite !app_assoc.
      + destruct Hx as [w1 [R1 [pre [rest [Hs [Hne Hb]]]]]]. exists w1. split.
        * apply run_then_blocked. apply (run_catch_blocked _ _ _ _ _ _ R1).
        * exists pre, (rest ++ rsleaves r). split; [rewrite Hs; now rewrite app_assoc|].
          split; [destruct rest; [contradiction|discriminate]|].
          intros y. rewrite Hb. cbn [app]. rewrite acq_all_app. apply acq_all_ext. intros z.
          apply Hw.
  Qed.

  Lemma run_rr_lock r : Plock r.
  Proof.
    induction r as [k l|u inner IH] using rawref_ind'; intros w Q ND.
    - change (rr_lock m (RLeaf k l)) with (leaf_lock m k l). unfold can_all. cbn [rleaves forallb fst snd acq_all map rev app].
      rewrite andb_true_r. rewrite (run_leaf_lock t m k l w Q).
      destruct (can1 k m (w_raw w l)).
      + eexists. split; [reflexivity|]. split; [apply eff_after_raw; exact I|reflexivity].
      + eexists. split; [reflexivity|]. exists [], [(k, l)]. split; [reflexivity|]. split; [discriminate|].
        intros y. reflexivity.
    - change (rr_lock m (ROwned u inner)) with (ordered_lock_from m (rr_lock m) [] inner).
      change (rleaves (ROwned u inner)) with (rsleaves inner) in *.
      apply (run_lock_loop inner IH [] w (w_raw w) Q ND (fun _ => eq_refl)).
  Qed.

  Lemma run_ordered_lock rs w :
    quiet w -> NoDup (locks_of (rsleaves rs)) ->
    if can_all m (rsleaves rs) (w_raw w)
    then exists w', run nopw t (ordered_lock m rs) w = (ODone VUnit, w') /\
                    eff w w' (acq_all t m (rsleaves rs) (w_raw w)) /\
                    w_trace w' = rev (map (acq_ev t m) (rsleaves rs)) ++ w_trace w
    else exists w', run nopw t (ordered_lock m rs) w = (OBlocked, w') /\ blocked_at w w' (w_raw w) [] (rsleaves rs).
  Proof.
    intros Q ND.
    apply (run_lock_loop rs (proj2 (Forall_forall _ _) (fun x _ => run_rr_lock x)) [] w (w_raw w) Q ND (fun _ => eq_refl)).
  Qed.
End Lock.
