(* WpAlgo.v — the algorithms of Algo.v in the logic of Wp.v: what each acquires and releases, and that every blocking
   acquisition is made above everything held. *)
From HL Require Import Base Model Shape Algo Api Conc OpsLemmas Lemmas ShapeLemmas Wp.

Definition hx (k : lkind) (m : mode) : bool := match k, m with KRw, Sh => false | _, _ => true end.
Lemma hx_acq k m : rop_ex (acq_op k m) = hx k m. Proof. destruct k, m; reflexivity. Qed.
Lemma hx_try k m : rop_ex (try_op k m) = hx k m. Proof. destruct k, m; reflexivity. Qed.
Lemma hx_rel k m : rop_ex (rel_op k m) = hx k m. Proof. destruct k, m; reflexivity. Qed.

Definition hold_of (m : mode) (x : lk) : hold := (snd x, hx (fst x) m).
Definition holds_of (m : mode) (ls : list lk) : list hold := map (hold_of m) ls.
Definition rel_all (xs : list hold) (H : list hold) : list hold := fold_left (fun h x => rem1 x h) xs H.

Lemma holds_of_app m a b : holds_of m (a ++ b) = holds_of m a ++ holds_of m b.
Proof. apply map_app. Qed.
Lemma rel_all_app a b H : rel_all (a ++ b) H = rel_all b (rel_all a H).
Proof. apply fold_left_app. Qed.

(* ---------------------------------------------------------------- multisets of holds *)
Lemma rem1_perm x H H' : Permutation H (x :: H') -> Permutation (rem1 x H) H'.
Proof.
  revert H'. induction H as [|y r IH]; intros H' P.
  - apply Permutation_nil in P. discriminate.
  - cbn [rem1]. destruct (hold_eqb_spec x y) as [->|N].
    + now apply Permutation_cons_inv in P.
    + assert (In y (x :: H')) as Hin by (eapply Permutation_in; [exact P|now left]).
      destruct Hin as [E|Hin]; [congruence|].
      destruct (in_split _ _ Hin) as [a [b ->]].
      assert (P2 : Permutation r (x :: a ++ b)).
      { apply Permutation_cons_inv with (a := y). rewrite P.
        change (x :: a ++ y :: b) with ((x :: a) ++ y :: b). rewrite <- Permutation_middle. reflexivity. }
      specialize (IH (a ++ b) P2). rewrite <- Permutation_middle. now constructor.
Qed.

Lemma rel_all_perm xs : forall H B, Permutation H (xs ++ B) -> Permutation (rel_all xs H) B.
Proof.
  induction xs as [|x r IH]; intros H B P; cbn [rel_all fold_left]; [exact P|].
  apply IH. apply rem1_perm. exact P.
Qed.

Lemma rel_all_perm_nil xs H : Permutation H xs -> rel_all xs H = [].
Proof.
  intros P. assert (Q : Permutation (rel_all xs H) []) by (apply rel_all_perm; now rewrite app_nil_r).
  apply Permutation_sym, Permutation_nil in Q. exact Q.
Qed.

Lemma rem1_head x H : rem1 x (x :: H) = H.
Proof. cbn [rem1]. destruct (hold_eqb_spec x x); [reflexivity|contradiction]. Qed.

Fixpoint sub_ok (xs H : list hold) : Prop :=
  match xs with [] => True | x :: r => In x H /\ sub_ok r (rem1 x H) end.

Lemma sub_ok_perm xs : forall H B, Permutation H (xs ++ B) -> sub_ok xs H.
Proof.
  induction xs as [|x r IH]; intros H B P; cbn [sub_ok]; [exact I|]. split.
  - eapply Permutation_in; [symmetry; exact P|]. now left.
  - apply (IH _ B). apply rem1_perm. exact P.
Qed.

Lemma sub_ok_app a : forall b H, sub_ok (a ++ b) H <-> sub_ok a H /\ sub_ok b (rel_all a H).
Proof.
  induction a as [|x r IH]; intros b H; cbn [app sub_ok rel_all fold_left]; [tauto|].
  rewrite IH. unfold rel_all. tauto.
Qed.

Section A.
Variable bl : list hold -> lock -> Prop.
Variable pz : Prop.
Notation wp := (wp bl pz).
Implicit Types (Qr : val -> post) (Qt QF : post) (H : list hold) (K : bool).

(* every lock of ls, acquired in this order on top of H, is above everything held when it is requested *)
Fixpoint asc (m : mode) (H : list hold) (ls : list lk) : Prop :=
  match ls with [] => True | x :: r => bl H (snd x) /\ asc m (hold_of m x :: H) r end.

Lemma asc_app m a : forall H b, asc m H (a ++ b) <-> asc m H a /\ asc m (rev (holds_of m a) ++ H) b.
Proof.
  induction a as [|x r IH]; intros H b; cbn [app asc holds_of map rev].
  - tauto.
  - rewrite IH. fold (holds_of m r). rewrite <- app_assoc. cbn [app]. tauto.
Qed.

(* ---------------------------------------------------------------- single locks *)
Lemma wp_leaf_lock m k l H K Qr Qt QF :
  bl H l -> Qr VUnit (hold_of m (k, l) :: H) K -> wp (leaf_lock m k l) H K Qr Qt QF.
Proof.
  intros R Q. unfold leaf_lock, hold_of in *. cbn [fst snd] in *. rewrite <- hx_acq in Q.
  cbn [Wp.wp vtrue op_]. destruct k, m; cbn [acq_op rop_ex] in *; split; assumption.
Qed.

Lemma wp_leaf_try m k l H K Qr Qt QF :
  Qr (VBool true) (hold_of m (k, l) :: H) K -> Qr (VBool false) H K -> wp (leaf_try m k l) H K Qr Qt QF.
Proof.
  intros Q1 Q2. unfold leaf_try, hold_of in *. cbn [fst snd] in *. rewrite <- hx_try in Q1.
  cbn [Wp.wp vtrue]. destruct k, m; cbn [try_op rop_ex] in *; split; assumption.
Qed.

Lemma wp_leaf_unlock m k l H K Qr Qt QF :
  In (hold_of m (k, l)) H -> Qr VUnit (rem1 (hold_of m (k, l)) H) K -> wp (leaf_unlock m k l) H K Qr Qt QF.
Proof.
  intros I Q. unfold leaf_unlock, hold_of in *. cbn [fst snd] in *. rewrite <- hx_rel in I, Q.
  cbn [Wp.wp op_]. destruct k, m; cbn [rel_op rop_ex] in *; split; assumption.
Qed.

(* ---------------------------------------------------------------- sequences *)
Lemma wp_then a b H K Qr Qt QF :
  wp a H K (fun _ H' K' => wp b H' K' Qr Qt QF) Qt QF -> wp (a ;; b) H K Qr Qt QF.
Proof. intros W. unfold pthen. cbn [Wp.wp]. exact W. Qed.

Definition unlock_spec (m : mode) (x : rawref) : Prop :=
  forall H K Qr Qt QF, sub_ok (holds_of m (rleaves x)) H -> Qr VUnit (rel_all (holds_of m (rleaves x)) H) K ->
                       wp (rr_unlock m x) H K Qr Qt QF.

Lemma wp_unlock_seq m rs : Forall (unlock_spec m) rs ->
  forall H K Qr Qt QF, sub_ok (holds_of m (rsleaves rs)) H -> Qr VUnit (rel_all (holds_of m (rsleaves rs)) H) K ->
                       wp (seqs (map (rr_unlock m) rs)) H K Qr Qt QF.
Proof.
  induction 1 as [|x r Hx Hr IH]; intros H K Qr Qt QF S Q; cbn [map seqs].
  - exact Q.
  - rewrite rsleaves_cons, holds_of_app in S, Q. apply sub_ok_app in S. destruct S as [S1 S2]. rewrite rel_all_app in Q.
    apply wp_then. apply Hx; [exact S1|]. apply IH; assumption.
Qed.

Lemma wp_rr_unlock m r : unlock_spec m r.
Proof.
  induction r as [k l|u inner IH] using rawref_ind2; intros H K Qr Qt QF S Q.
  - cbn [rr_unlock rleaves holds_of map sub_ok rel_all fold_left] in *. apply wp_leaf_unlock; [exact (proj1 S)|exact Q].
  - cbn [rr_unlock rleaves]. apply (wp_unlock_seq m inner IH); assumption.
Qed.

Lemma wp_unlock_list m rs H K Qr Qt QF :
  sub_ok (holds_of m (rsleaves rs)) H -> Qr VUnit (rel_all (holds_of m (rsleaves rs)) H) K ->
  wp (seqs (map (rr_unlock m) rs)) H K Qr Qt QF.
Proof.
  intros S Q. apply wp_unlock_seq; [|exact S|exact Q]. apply Forall_forall. intros x _. apply wp_rr_unlock.
Qed.

(* recover: the releases cannot panic here, its handler is never run *)
Lemma wp_recover m rs H K Qr Qt QF :
  sub_ok (holds_of m (rsleaves rs)) H -> Qr VUnit (rel_all (holds_of m (rsleaves rs)) H) K -> wp (recover m rs) H K Qr Qt QF.
Proof. intros S Q. unfold recover. cbn [Wp.wp]. apply wp_unlock_list; assumption. Qed.

(* ---------------------------------------------------------------- blocking acquisition in listed order *)
Lemma wp_ordered_lock_from m (lk : rawref -> prog) todo :
  Forall (fun x => forall H K Qr Qt QF, asc m H (rleaves x) -> Qr VUnit (rev (holds_of m (rleaves x)) ++ H) K ->
                                        wp (lk x) H K Qr Qt QF) todo ->
  forall done H K Qr Qt QF,
    asc m H (rsleaves todo) -> Qr VUnit (rev (holds_of m (rsleaves todo)) ++ H) K ->
    wp (ordered_lock_from m lk done todo) H K Qr Qt QF.
Proof.
  induction 1 as [|x r Hx Hr IH]; intros done H K Qr Qt QF A Q; cbn [ordered_lock_from].
  - exact Q.
  - cbn [rsleaves flat_map] in A, Q. fold (rsleaves r) in A, Q. apply asc_app in A. destruct A as [A1 A2].
    apply wp_then. cbn [Wp.wp]. apply Hx; [exact A1|]. apply IH; [exact A2|].
    rewrite holds_of_app, rev_app_distr, <- app_assoc in Q. exact Q.
Qed.

Lemma wp_rr_lock m r : forall H K Qr Qt QF,
  asc m H (rleaves r) -> Qr VUnit (rev (holds_of m (rleaves r)) ++ H) K -> wp (rr_lock m r) H K Qr Qt QF.
Proof.
  induction r as [k l|u inner IH] using rawref_ind2; intros H K Qr Qt QF A Q.
  - cbn [rr_lock rleaves] in *. destruct A as [A _]. apply wp_leaf_lock; [exact A|exact Q].
  - cbn [rr_lock rleaves]. apply (wp_ordered_lock_from m (rr_lock m) inner IH); [exact A|exact Q].
Qed.

Lemma wp_ordered_lock m rs H K Qr Qt QF :
  asc m H (rsleaves rs) -> Qr VUnit (rev (holds_of m (rsleaves rs)) ++ H) K -> wp (ordered_lock m rs) H K Qr Qt QF.
Proof.
  intros A Q. unfold ordered_lock. apply wp_ordered_lock_from; [|exact A|exact Q].
  apply Forall_forall. intros x _. apply wp_rr_lock.
Qed.


(* ---------------------------------------------------------------- try-acquisitions with roll-back *)
Definition try_spec (m : mode) (tr : rawref -> prog) (x : rawref) : Prop :=
  forall H K Qr Qt QF,
    (forall H', Permutation H' (holds_of m (rleaves x) ++ H) -> Qr (VBool true) H' K) ->
    (forall H', Permutation H' H -> Qr (VBool false) H' K) ->
    wp (tr x) H K Qr Qt QF.

Lemma wp_ordered_try_from m (tr : rawref -> prog) todo :
  Forall (try_spec m tr) todo ->
  forall done Hc H0 K Qr Qt QF,
    Permutation Hc (holds_of m (rsleaves done) ++ H0) ->
    (forall H', Permutation H' (holds_of m (rsleaves (done ++ todo)) ++ H0) -> Qr (VBool true) H' K) ->
    (forall H', Permutation H' H0 -> Qr (VBool false) H' K) ->
    wp (ordered_try_from m tr done todo) Hc K Qr Qt QF.
Proof.
  induction 1 as [|x r Hx Hr IH]; intros done Hc H0 K Qr Qt QF P Q1 Q2; cbn [ordered_try_from].
  - cbn [Wp.wp]. apply Q1. now rewrite app_nil_r.
  - cbn [Wp.wp]. apply Hx.
    + intros H' P'. cbn [vtrue]. apply (IH (done ++ [x]) H' H0 K Qr Qt QF).
      * rewrite P', P. rewrite rsleaves_app, rsleaves_one, holds_of_app.
        rewrite !app_assoc. apply Permutation_app_tail. apply Permutation_app_comm.
      * intros H2 P2. apply Q1. rewrite <- app_assoc in P2. exact P2.
      * exact Q2.
    + intros H' P'. cbn [vtrue]. apply wp_then. cbn [Wp.wp]. apply wp_unlock_list.
      * apply (sub_ok_perm _ _ H0). now rewrite P'.
      * cbn [Wp.wp]. apply Q2. apply rel_all_perm. now rewrite P'.
Qed.

Lemma wp_retry_try_from m (tr : rawref -> prog) todo :
  Forall (try_spec m tr) todo ->
  forall done Hc H0 K Qr Qt QF,
    Permutation Hc (holds_of m (rsleaves done) ++ H0) ->
    (forall H', Permutation H' (holds_of m (rsleaves (done ++ todo)) ++ H0) -> Qr (VBool true) H' K) ->
    (forall H', Permutation H' H0 -> Qr (VBool false) H' K) ->
    wp (retry_try_from m tr done todo) Hc K Qr Qt QF.
Proof.
  induction 1 as [|x r Hx Hr IH]; intros done Hc H0 K Qr Qt QF P Q1 Q2; cbn [retry_try_from].
  - cbn [Wp.wp]. apply Q1. now rewrite app_nil_r.
  - cbn [Wp.wp]. apply Hx.
    + intros H' P'. cbn [vtrue]. apply (IH (done ++ [x]) H' H0 K Qr Qt QF).
      * rewrite P', P. rewrite rsleaves_app, rsleaves_one, holds_of_app.
        rewrite !app_assoc. apply Permutation_app_tail. apply Permutation_app_comm.
      * intros H2 P2. apply Q1. rewrite <- app_assoc in P2. exact P2.
      * exact Q2.
    + intros H' P'. cbn [vtrue]. apply wp_then. cbn [Wp.wp]. apply wp_recover.
      * apply (sub_ok_perm _ _ H0). now rewrite P'.
      * cbn [Wp.wp]. apply Q2. apply rel_all_perm. now rewrite P'.
Qed.

Lemma rr_try_spec m r : try_spec m (rr_try m) r.
Proof.
  induction r as [k l|u inner IH] using rawref_ind2; intros H K Qr Qt QF Q1 Q2.
  - cbn [rr_try]. apply wp_leaf_try; [apply Q1|apply Q2]; reflexivity.
  - cbn [rr_try]. apply (wp_ordered_try_from m (rr_try m) inner IH [] H H K Qr Qt QF).
    + reflexivity.
    + intros H' P'. apply Q1. exact P'.
    + exact Q2.
Qed.

Lemma wp_ordered_try m rs H K Qr Qt QF :
  (forall H', Permutation H' (holds_of m (rsleaves rs) ++ H) -> Qr (VBool true) H' K) ->
  (forall H', Permutation H' H -> Qr (VBool false) H' K) ->
  wp (ordered_try m rs) H K Qr Qt QF.
Proof.
  intros Q1 Q2. unfold ordered_try. apply (wp_ordered_try_from m (rr_try m) rs) with (done := []) (H0 := H).
  - apply Forall_forall. intros x _. apply rr_try_spec.
  - reflexivity.
  - exact Q1.
  - exact Q2.
Qed.

Lemma wp_retry_try m rs H K Qr Qt QF :
  (forall H', Permutation H' (holds_of m (rsleaves rs) ++ H) -> Qr (VBool true) H' K) ->
  (forall H', Permutation H' H -> Qr (VBool false) H' K) ->
  wp (retry_try m rs) H K Qr Qt QF.
Proof.
  intros Q1 Q2. unfold retry_try. destruct rs as [|x r].
  - cbn [Wp.wp]. apply Q1. reflexivity.
  - apply (wp_retry_try_from m (rr_try m) (x :: r)) with (done := []) (H0 := H).
    + apply Forall_forall. intros y _. apply rr_try_spec.
    + reflexivity.
    + exact Q1.
    + exact Q2.
Qed.

(* ---------------------------------------------------------------- the retrying acquisition *)
Lemma skipn_cons_nth {X} (d : X) : forall (l : list X) i x r, skipn i l = x :: r -> i < length l /\ x = nth i l d /\ r = skipn (S i) l /\ firstn (S i) l = firstn i l ++ [x].
Proof.
  induction l as [|y l IH]; intros i x r E.
  - destruct i; discriminate.
  - destruct i as [|i].
    + cbn in E. inversion E; subst. cbn. repeat split; lia || reflexivity.
    + cbn [skipn] in E. destruct (IH i x r E) as [A [B [C D]]]. repeat split.
      * cbn [length]. lia.
      * exact B.
      * exact C.
      * cbn [firstn]. cbn [firstn] in D. rewrite D. reflexivity.
Qed.

Section Retry.
Variable m : mode.
Variable locks : list rawref.
Hypothesis ASC : Forall (fun r => asc m [] (rleaves r)) locks.

Lemma wp_retry_inner (again : nat -> prog) first K Qr Qt QF :
  first < length locks ->
  (forall j, j < length locks -> wp (again j) [] K Qr Qt QF) ->
  (forall H', Permutation H' (holds_of m (rsleaves locks)) -> Qr VUnit H' K) ->
  forall todo i locked H,
    todo = skipn i locks ->
    Permutation H (holds_of m (rsleaves (firstn i locks)) ++
                   (if Nat.leb i first then holds_of m (rleaves (nthr first locks)) else [])) ->
    wp (retry_inner m locks again first i locked todo) H K Qr Qt QF.
Proof.
  intros Hf Hag Hq. induction todo as [|x r IH]; intros i locked H E P; cbn [retry_inner].
  - cbn [Wp.wp]. apply Hq.
    assert (L : length locks <= i).
    { destruct (Nat.le_gt_cases (length locks) i) as [G|G]; [exact G|].
      assert (length (skipn i locks) = length locks - i) by apply skipn_length. rewrite <- E in H0. cbn in H0. lia. }
    rewrite firstn_all2 in P by exact L.
    destruct (Nat.leb_spec i first); [lia|]. now rewrite app_nil_r in P.
  - symmetry in E. destruct (skipn_cons_nth dflt locks i x r E) as [Li [Ex [Er Ef]]].
    destruct (Nat.eqb_spec i first) as [->|Ne].
    + (* the element waited for: skipped *)
      apply IH; [exact Er|]. rewrite P, Ef. rewrite Nat.leb_refl.
      destruct (Nat.leb_spec (S first) first); [lia|]. rewrite app_nil_r.
      rewrite rsleaves_app, rsleaves_one, holds_of_app. fold (nthr first locks) in Ex. rewrite Ex. reflexivity.
    + cbn [Wp.wp]. apply rr_try_spec.
      * intros H' P'. cbn [vtrue]. apply IH; [exact Er|]. rewrite P', P, Ef.
        rewrite rsleaves_app, rsleaves_one, holds_of_app.
        replace (Nat.leb (S i) first) with (Nat.leb i first)
          by (destruct (Nat.leb_spec i first), (Nat.leb_spec (S i) first); try reflexivity; lia).
        rewrite !app_assoc. apply Permutation_app_tail. apply Permutation_app_comm.
      * intros H' P'. cbn [vtrue]. apply wp_then. cbn [Wp.wp]. apply wp_then.
        assert (PA : Permutation H' (holds_of m (rsleaves (firstn i locks)) ++
                                     (if Nat.leb i first then holds_of m (rleaves (nthr first locks)) else []))) by (now rewrite P').
        pose proof (rel_all_perm _ _ _ PA) as PB.
        pose proof (rel_all_perm_nil _ _ PB) as Z.
        apply wp_recover; [apply (sub_ok_perm _ _ _ PA)|].
        destruct (Nat.leb i first).
        -- apply wp_rr_unlock; [apply (sub_ok_perm _ _ []); now rewrite app_nil_r|]. rewrite Z. cbn [Wp.wp]. apply Hag. exact Li.
        -- cbn [rel_all fold_left] in Z. rewrite Z. cbn [Wp.wp skip]. apply Hag. exact Li.
Qed.

Lemma nthr_in i : i < length locks -> In (nthr i locks) locks.
Proof. intros L. unfold nthr. now apply nth_In. Qed.

Lemma wp_retry_outer K Qr Qt QF :
  QF [] K ->
  (forall H', Permutation H' (holds_of m (rsleaves locks)) -> Qr VUnit H' K) ->
  forall fuel first, first < length locks -> wp (retry_outer m locks fuel first) [] K Qr Qt QF.
Proof.
  intros Hfu Hq. induction fuel as [|f IH]; intros first Lf; cbn [retry_outer].
  - exact Hfu.
  - apply wp_then. cbn [Wp.wp]. apply wp_rr_lock.
    + rewrite Forall_forall in ASC. apply ASC. now apply nthr_in.
    + rewrite app_nil_r. apply wp_retry_inner; [exact Lf|exact IH|exact Hq|reflexivity|].
      cbn [firstn rsleaves flat_map holds_of map app]. cbn [Nat.leb]. symmetry. apply Permutation_rev.
Qed.

Lemma wp_retry_lock fuel K Qr Qt QF :
  QF [] K ->
  (forall H', Permutation H' (holds_of m (rsleaves locks)) -> Qr VUnit H' K) ->
  wp (retry_lock m locks fuel) [] K Qr Qt QF.
Proof.
  intros Hfu Hq. unfold retry_lock. destruct locks as [|x r] eqn:E.
  - cbn [Wp.wp skip]. apply Hq. reflexivity.
  - rewrite <- E in *. apply wp_retry_outer; [exact Hfu|exact Hq|]. rewrite E. cbn [length]. lia.
Qed.
End Retry.

(* ---------------------------------------------------------------- a lock or collection as a RawLock *)
Definition alg_leaves (a : alg) : list lk := rsleaves (alg_refs a).

Definition alg_ok (m : mode) (a : alg) : Prop :=
  match a with
  | AlgLeaf k l => bl [] l
  | AlgOrdered rs => asc m [] (rsleaves rs)
  | AlgRetry rs => Forall (fun r => asc m [] (rleaves r)) rs
  | AlgNone => True
  end.

Lemma wp_raw_lock fuel m a K Qr Qt QF :
  alg_ok m a -> QF [] K ->
  (forall H', Permutation H' (holds_of m (alg_leaves a)) -> Qr VUnit H' K) ->
  wp (raw_lock fuel m a) [] K Qr Qt QF.
Proof.
  intros A Hfu Hq. destruct a as [k l|rs|rs|]; cbn [raw_lock alg_ok alg_leaves alg_refs] in *.
  - apply wp_leaf_lock; [exact A|]. apply Hq. simpl. reflexivity.
  - apply wp_ordered_lock; [exact A|]. apply Hq. rewrite app_nil_r. symmetry. apply Permutation_rev.
  - apply wp_retry_lock; assumption.
  - cbn [Wp.wp skip]. apply Hq. reflexivity.
Qed.

Lemma wp_raw_try m a H K Qr Qt QF :
  (forall H', Permutation H' (holds_of m (alg_leaves a) ++ H) -> Qr (VBool true) H' K) ->
  (forall H', Permutation H' H -> Qr (VBool false) H' K) ->
  wp (raw_try m a) H K Qr Qt QF.
Proof.
  intros Q1 Q2. destruct a as [k l|rs|rs|]; cbn [raw_try alg_leaves alg_refs] in *.
  - apply wp_leaf_try; [apply Q1; simpl; reflexivity|apply Q2; reflexivity].
  - apply wp_ordered_try; assumption.
  - apply wp_retry_try; assumption.
  - cbn [Wp.wp]. apply Q1. reflexivity.
Qed.

Lemma wp_raw_unlock m a H K Qr Qt QF :
  sub_ok (holds_of m (alg_leaves a)) H ->
  Qr VUnit (rel_all (holds_of m (alg_leaves a)) H) K -> wp (raw_unlock m a) H K Qr Qt QF.
Proof.
  intros S Q. destruct a as [k l|rs|rs|]; cbn [raw_unlock alg_leaves alg_refs] in *.
  - apply wp_leaf_unlock; [simpl in S; exact (proj1 S)|]. simpl in Q. exact Q.
  - apply wp_unlock_list; assumption.
  - apply wp_unlock_list; assumption.
  - exact Q.
Qed.

End A.
