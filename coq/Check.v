(* Check.v — decidable comparison of observations and the generic projection machinery used by the
   correspondence check (the model's observation against the implementation's, per property). *)
From HL Require Import Base Model Shape Algo Api.

Fixpoint list_eqb {A} (eqb : A -> A -> bool) (a b : list A) : bool :=
  match a, b with
  | [], [] => true
  | x :: a', y :: b' => eqb x y && list_eqb eqb a' b'
  | _, _ => false
  end.

Definition opt_eqb {A} (eqb : A -> A -> bool) (a b : option A) : bool :=
  match a, b with
  | None, None => true
  | Some x, Some y => eqb x y
  | _, _ => false
  end.

Definition rawst_eqb (a b : rawst) : bool :=
  opt_eqb Nat.eqb (writer a) (writer b) && list_eqb Nat.eqb (readers a) (readers b).

(* readers as a multiset: the order in which readers joined is not part of any property *)
Fixpoint count (x : nat) (l : list nat) : nat :=
  match l with [] => 0 | y :: r => (if Nat.eqb x y then 1 else 0) + count x r end.
Definition perm_eqb (a b : list nat) : bool :=
  Nat.eqb (length a) (length b) && forallb (fun x => Nat.eqb (count x a) (count x b)) a.
Definition rawst_sim (a b : rawst) : bool :=
  opt_eqb Nat.eqb (writer a) (writer b) && perm_eqb (readers a) (readers b).

Definition rres_eqb (a b : rres) : bool :=
  match a, b with
  | RUnit, RUnit | RFault, RFault | RBlocked, RBlocked | RBad, RBad => true
  | RBool x, RBool y => Bool.eqb x y
  | _, _ => false
  end.

Definition ev_eqb (a b : ev) : bool :=
  match a, b with
  | ERaw t k l r, ERaw t' k' l' r' => Nat.eqb t t' && rop_eqb k k' && Nat.eqb l l' && rres_eqb r r'
  | EData t w p g v, EData t' w' p' g' v' =>
      Nat.eqb t t' && Bool.eqb w w' && Nat.eqb p p' && Nat.eqb g g' && Nat.eqb v v'
  | ESee t b, ESee t' b' => Nat.eqb t t' && Bool.eqb b b'
  | EProbe t b, EProbe t' b' => Nat.eqb t t' && Bool.eqb b b'
  | EMark t n, EMark t' n' => Nat.eqb t t' && Nat.eqb n n'
  | _, _ => false
  end.

Definition rcode_eqb (a b : rcode) : bool :=
  match a, b with
  | ROk, ROk | RWouldBlock, RWouldBlock | RPoisoned, RPoisoned | RPanicked, RPanicked
  | RBlockedC, RBlockedC | RAborted, RAborted | RFuelOut, RFuelOut | RSkipped, RSkipped => true
  | RB x, RB y => Bool.eqb x y
  | RN x, RN y => Nat.eqb x y
  | _, _ => false
  end.

Definition callobs_eqb (a b : callobs) : bool :=
  Nat.eqb (co_tid a) (co_tid b) && rcode_eqb (co_ret a) (co_ret b) &&
  list_eqb ev_eqb (co_evs a) (co_evs b) && list_eqb rawst_sim (co_holds a) (co_holds b) &&
  list_eqb Bool.eqb (co_psn a) (co_psn b) && Bool.eqb (co_keyfree a) (co_keyfree b).

(* a projection keeps some event kinds and some snapshot components *)
Record projspec := mkps {
  ps_ev : ev -> bool;
  ps_holds : bool;
  ps_psn : bool;
  ps_key : bool
}.

(* the order in which one call releases several locks in a row is not part of any property: maximal runs of
   consecutive successful releases are compared as sorted by lock *)
Definition is_ok_rel (e : ev) : bool :=
  match e with ERaw _ (OUnlock | OUnlockSh) _ RUnit => true | _ => false end.
Definition ev_lockid (e : ev) : nat := match e with ERaw _ _ l _ => l | _ => 0 end.
Fixpoint norm_runs (run : list ev) (evs : list ev) : list ev :=
  match evs with
  | [] => isort ev_lockid run
  | e :: r => if is_ok_rel e then norm_runs (e :: run) r else isort ev_lockid run ++ e :: norm_runs [] r
  end.

Definition project (p : projspec) (c : callobs) : callobs :=
  mkco (co_tid c) (co_ret c) (norm_runs [] (filter (ps_ev p) (co_evs c)))
       (if ps_holds p then co_holds c else [])
       (if ps_psn p then co_psn c else [])
       (if ps_key p then co_keyfree c else true).

Definition obs_eqb (a b : list callobs) : bool := list_eqb callobs_eqb a b.
Definition proj_eqb (p : projspec) (a b : list callobs) : bool :=
  list_eqb callobs_eqb (map (project p) a) (map (project p) b).

Definition ev_is_raw (e : ev) : bool := match e with ERaw _ _ _ _ => true | _ => false end.
Definition ev_is_blocking_raw (e : ev) : bool :=
  match e with ERaw _ k _ _ => rop_blocking k | _ => false end.
Definition ev_any (e : ev) : bool := true.
Definition ev_none (e : ev) : bool := false.
Definition ev_not_raw (e : ev) : bool := negb (ev_is_raw e).

Definition ps_full : projspec := mkps ev_any true true true.

(* result of checking one scenario: strict equality, equality under the property's projection,
   and the property's monitor evaluated on the implementation's observation *)
Record verdict := mkv { v_strict : bool; v_proj : bool; v_mon : bool; v_monk : bool }.
(* v_monk: the monitor with the classes listed in known_findings.txt left open (= v_mon when there are none) *)

Definition check_with (p : projspec) (mon : scen -> list callobs -> bool)
           (sc : scen) (impl : list callobs) : verdict :=
  let m := model_obs sc in
  mkv (obs_eqb m impl) (proj_eqb p m impl) (mon sc impl) (mon sc impl).

Definition check_with2 (p : projspec) (mon monk : scen -> list callobs -> bool)
           (sc : scen) (impl : list callobs) : verdict :=
  let m := model_obs sc in
  mkv (obs_eqb m impl) (proj_eqb p m impl) (mon sc impl) (monk sc impl).
