(* ApiLemmas.v — guard drop, collection-level acquire/release and history-step facts in quiet worlds. *)
From HL Require Import Base Model Shape Algo Api Lemmas ShapeLemmas.

Section ApiFacts.
  Variables (t : tid) (m : mode).

  Lemma run_drop_items items :
    forall w, quiet w -> NoDup (locks_of (gleaves items)) -> held_all t m (gleaves items) (w_raw w) = true ->
    exists w', run nopw t (drop_items m false items) w = (ODone VUnit, w') /\
               eff w w' (rel_all t m (gleaves items) (w_raw w)).
  Proof.
    induction items as [|[k l|p] r IH]; intros w Q ND H.
    - exists w. split; [reflexivity|apply eff_refl].
    - cbn [gleaves locks_of map] in ND. inversion ND as [|? ? Hn ND']; subst.
      cbn [gleaves] in H. unfold held_all in H. cbn [forallb fst snd] in H.
      apply andb_true_iff in H. destruct H as [H1 H2].
      pose proof (run_leaf_unlock t m k l w Q H1) as R1.
      set (w1 := after_raw l w (rel1 t k m (w_raw w l)) (ERaw t (rel_op k m) l RUnit)) in *.
      assert (E1 : eff w w1 (upd (w_raw w) l (rel1 t k m (w_raw w l)))) by (apply eff_after_raw; exact I).
      assert (Q1 : quiet w1) by (eapply eff_quiet; eauto).
      assert (H2' : held_all t m (gleaves r) (w_raw w1) = true).
      { unfold held_all. rewrite <- H2. apply forallb_ext_in'. intros [k' l'] Hin. cbn [fst snd].
        rewrite (eff_raw _ _ _ E1). rewrite upd_other; [reflexivity|].
        intros ->. apply Hn. unfold locks_of. now apply (in_map snd) in Hin. }
      destruct (IH w1 Q1 ND' H2') as [w2 [R2 E2]].
      exists w2. split.
      + cbn [drop_items]. rewrite (run_then_done _ _ _ _ _ VUnit w1).
        * exact R2.
        * apply (run_catch_done _ _ _ _ _ _ _ R1).
      + cbn [gleaves rel_all]. eapply eff_ext; [eapply eff_trans; eauto|].
        apply rel_all_ext. apply (eff_raw _ _ _ E1).
    - cbn [gleaves] in *. destruct (IH w Q ND H) as [w2 [R2 E2]].
      exists w2. split; [|exact E2]. cbn [drop_items].
      rewrite (run_then_done _ _ _ _ _ VUnit w); [exact R2|reflexivity].
  Qed.

  (* raw_try_write / raw_try_read of a lock, a collection or a wrapper around one *)
  Lemma run_raw_try am s w :
    quiet w -> acquirable s = true -> NoDup (leaves s) ->
    exists w', run nopw t (raw_try m (alg_of am s)) w = (ODone (VBool (can_all m (kleaves s) (w_raw w))), w') /\
               eff w w' (if can_all m (kleaves s) (w_raw w) then acq_all t m (kleaves s) (w_raw w) else w_raw w).
  Proof.
    intros Q Ha ND. pose proof (alg_refs_leaves am s Ha) as Hp.
    rewrite leaves_kleaves in ND.
    assert (ND' : NoDup (locks_of (rsleaves (alg_refs (alg_of am s))))).
    { eapply Permutation_NoDup; [apply locks_of_perm; symmetry; exact Hp|exact ND]. }
    rewrite <- (can_all_perm m _ _ (w_raw w) Hp).
    assert (X : exists w', run nopw t (raw_try m (alg_of am s)) w =
                (ODone (VBool (can_all m (rsleaves (alg_refs (alg_of am s))) (w_raw w))), w') /\
                eff w w' (if can_all m (rsleaves (alg_refs (alg_of am s))) (w_raw w)
                          then acq_all t m (rsleaves (alg_refs (alg_of am s))) (w_raw w) else w_raw w)).
    { destruct (alg_of am s) as [k l|rs|rs|] eqn:Ea; cbn [raw_try alg_refs] in *.
      - pose proof (run_rr_try t m (RLeaf k l) w Q) as X. rewrite rsleaves_one in *. apply X. exact ND'.
      - apply run_ordered_try; assumption.
      - apply run_retry_try; assumption.
      - exists w. split; [reflexivity|apply eff_refl]. }
    destruct X as [w' [R E]]. exists w'. split; [exact R|].
    destruct (can_all m (rsleaves (alg_refs (alg_of am s))) (w_raw w)); [|exact E].
    eapply eff_ext; [exact E|]. intros x. apply acq_all_perm; assumption.
  Qed.
End ApiFacts.

(* ---------------------------------------------------------------- silent / observing operations *)
Lemma run_see_all t ps w :
  exists w', run nopw t (see_all ps) w = (ODone VUnit, w') /\ eff w w' (w_raw w).
Proof.
  revert w. induction ps as [|p r IH]; intros w.
  - exists w. split; [reflexivity|apply eff_refl].
  - destruct (IH (emit w (ESee t (w_psn w p)))) as [w' [R E]].
    exists w'. split.
    + unfold see_all in *. cbn [map seqs]. unfold pthen at 1. cbn [run op_ do_op]. exact R.
    + eapply eff_trans; [|exact E]. constructor; simpl; auto. exists [ESee t (w_psn w p)]. split; auto.
      constructor; [exact I|constructor].
Qed.

Lemma run_poison_result t s w :
  (forall p, w_psn w p = false) ->
  run nopw t (poison_result s) w = (ODone (VNat 0), w).
Proof.
  intros H. unfold poison_result. destruct (root_poison s); [|reflexivity].
  simpl. now rewrite H.
Qed.

(* ---------------------------------------------------------------- snapshots *)
Lemma nth_snapshot_holds n w l : l < n -> nth l (snapshot_holds n w) raw_free = w_raw w l.
Proof.
  intros H. unfold snapshot_holds.
  rewrite (nth_indep _ raw_free (w_raw w 0)) by (now rewrite map_length, seq_length).
  rewrite (map_nth (w_raw w) (seq 0 n) 0 l). now rewrite seq_nth.
Qed.

Lemma snapshot_holds_ext n w w' :
  (forall x, w_raw w x = w_raw w' x) -> snapshot_holds n w = snapshot_holds n w'.
Proof. intros H. unfold snapshot_holds. apply map_ext. exact H. Qed.
