(* ApiLemmas.v — guard drop, collection-level acquire/release and history-step facts in quiet worlds. *)
From HL Require Import Base Model Shape Algo Api Lemmas ShapeLemmas.

Section ApiFacts.
  Variables (t : tid) (m : mode).

  Lemma run_drop_items items :
    forall w, quiet w -> NoDup (locks_of (gleaves items)) -> held_all t m (gleaves items) (w_raw w) = true ->
    exists w', run nopw t (drop_items m false items) w = (ODone VUnit, w') /\
               eff w w' (rel_all t m (gleaves items) (w_raw w)).
  Proof.
    induction items as [|[k l|p] r IH]; intros w Q ND H.
    - exists w. split; [reflexivity|apply eff_refl].
    - cbn [gleaves locks_of map] in ND. inversion ND as [|? ? Hn ND']; subst.
      cbn [gleaves] in H. unfold held_all in H. cbn [forallb fst snd] in H.
      apply andb_true_iff in H. destruct H as [H1 H2].
      pose proof (run_leaf_unlock t m k l w Q H1) as R1.
      set (w1 := after_raw l w (rel1 t k m (w_raw w l)) (ERaw t (rel_op k m) l RUnit)) in *.
      assert (E1 : eff w w1 (upd (w_raw w) l (rel1 t k m (w_raw w l)))) by (apply eff_after_raw; exact I).
      assert (Q1 : quiet w1) by (eapply eff_quiet; eauto).
      assert (H2' : held_all t m (gleaves r) (w_raw w1) = true).
      { unfold held_all. rewrite <- H2. apply forallb_ext_in'. intros [k' l'] Hin. cbn [fst snd].
        rewrite (eff_raw _ _ _ E1). rewrite upd_other; [reflexivity|].
        intros ->. apply Hn. unfold locks_of. now apply (in_map snd) in Hin. }
      destruct (IH w1 Q1 ND' H2') as [w2 [R2 E2]].
      exists w2. split.
      + cbn [drop_items]. rewrite (run_then_done _ _ _ _ _ VUnit w1).
        * exact R2.
        * apply (run_catch_done _ _ _ _ _ _ _ R1).
      + cbn [gleaves rel_all]. eapply eff_ext; [eapply eff_trans; eauto|].
        apply rel_all_ext. apply (eff_raw _ _ _ E1).
    - cbn [gleaves] in *. destruct (IH w Q ND H) as [w2 [R2 E2]].
      exists w2. split; [|exact E2]. cbn [drop_items].
      rewrite (run_then_done _ _ _ _ _ VUnit w); [exact R2|reflexivity].
  Qed.

  (* raw_try_write / raw_try_read of a lock, a collection or a wrapper around one *)
  Lemma run_raw_try am s w :
    quiet w -> acquirable s = true -> NoDup (leaves s) ->
    exists w', run nopw t (raw_try m (alg_of am s)) w = (ODone (VBool (can_all m (kleaves s) (w_raw w))), w') /\
               eff w w' (if can_all m (kleaves s) (w_raw w) then acq_all t m (kleaves s) (w_raw w) else w_raw w).
  Proof.
    intros Q Ha ND. pose proof (alg_refs_leaves am s Ha) as Hp.
    rewrite leaves_kleaves in ND.
    assert (ND' : NoDup (locks_of (rsleaves (alg_refs (alg_of am s))))).
    { eapply Permutation_NoDup; [apply locks_of_perm; symmetry; exact Hp|exact ND]. }
    rewrite <- (can_all_perm m _ _ (w_raw w) Hp).
    assert (X : exists w', run nopw t (raw_try m (alg_of am s)) w =
                (ODone (VBool (can_all m (rsleaves (alg_refs (alg_of am s))) (w_raw w))), w') /\
                eff w w' (if can_all m (rsleaves (alg_refs (alg_of am s))) (w_raw w)
                          then acq_all t m (rsleaves (alg_refs (alg_of am s))) (w_raw w) else w_raw w)).
    { destruct (alg_of am s) as [k l|rs|rs|] eqn:Ea; cbn [raw_try alg_refs] in *.
      - pose proof (run_rr_try t m (RLeaf k l) w Q) as X. rewrite rsleaves_one in *. apply X. exact ND'.
      - apply run_ordered_try; assumption.
      - apply run_retry_try; assumption.
      - exists w. split; [reflexivity|apply eff_refl]. }
    destruct X as [w' [R E]]. exists w'. split; [exact R|].
    destruct (can_all m (rsleaves (alg_refs (alg_of am s))) (w_raw w)); [|exact E].
    eapply eff_ext; [exact E|]. intros x. apply acq_all_perm; assumption.
  Qed.
End ApiFacts.

(* ---------------------------------------------------------------- silent / observing operations *)
Lemma run_see_all t ps w :
  exists w', run nopw t (see_all ps) w = (ODone VUnit, w') /\ eff w w' (w_raw w).
Proof.
  revert w. induction ps as [|p r IH]; intros w.
  - exists w. split; [reflexivity|apply eff_refl].
  - destruct (IH (emit w (ESee t (w_psn w p)))) as [w' [R E]].
    exists w'. split.
    + unfold see_all in *. cbn [map seqs]. unfold pthen at 1. cbn [run op_ do_op]. exact R.
    + eapply eff_trans; [|exact E]. constructor; simpl; auto. exists [ESee t (w_psn w p)]. split; auto.
      constructor; [exact I|constructor].
Qed.

Lemma run_poison_result t s w :
  (forall p, w_psn w p = false) ->
  run nopw t (poison_result s) w = (ODone (VNat 0), w).
Proof.
  intros H. unfold poison_result. destruct (root_poison s); [|reflexivity].
  simpl. now rewrite H.
Qed.

Lemma run_with_key_done pw t dp dd body w v w' :
  run pw t body w = (ODone v, w') ->
  run pw t (with_key dp dd body) w = (ODone v, if dd then set_keyf w' t false else w').
Proof.
  intros H. unfold with_key. rewrite run_bind. rewrite (run_catch_done _ _ _ _ _ _ _ H).
  destruct dd; reflexivity.
Qed.

Lemma run_bind_done pw t m k w v w1 :
  run pw t m w = (ODone v, w1) -> run pw t (Bind m k) w = run pw t (k v) w1.
Proof. intros H. rewrite run_bind, H. reflexivity. Qed.

(* ---------------------------------------------------------------- snapshots *)
Lemma nth_snapshot_holds n w l : l < n -> nth l (snapshot_holds n w) raw_free = w_raw w l.
Proof.
  intros H. unfold snapshot_holds.
  rewrite (nth_indep _ raw_free (w_raw w 0)) by (now rewrite map_length, seq_length).
  rewrite (map_nth (w_raw w) (seq 0 n) 0 l). now rewrite seq_nth.
Qed.

Lemma snapshot_holds_ext n w w' :
  (forall x, w_raw w x = w_raw w' x) -> snapshot_holds n w = snapshot_holds n w'.
Proof. intros H. unfold snapshot_holds. apply map_ext. exact H. Qed.

(* ---------------------------------------------------------------- history steps *)
Lemma hstep_some e nl np h t o p out w' :
  h_stop h = false -> api_prog e (h_loc h t) o = Some p ->
  run nopw t p (clear_trace (h_w h)) = (out, w') ->
  hstep e nl np h (t, o) =
  (mkh w' (upd (h_loc h) t (fst (api_fin e (h_loc h t) o out))) (stops (snd (api_fin e (h_loc h t) o out))),
   [mkco t (snd (api_fin e (h_loc h t) o out)) (rev (w_trace w')) (snapshot_holds nl w') (snapshot_psn np w')
          (negb (w_keyf w' t))]).
Proof.
  intros Hs Hp Hr. unfold hstep. rewrite Hs, Hp, Hr.
  destruct (api_fin e (h_loc h t) o out). reflexivity.
Qed.

Lemma hstep_none e nl np h t o :
  h_stop h = false -> api_prog e (h_loc h t) o = None ->
  hstep e nl np h (t, o) =
  (h, [mkco t RSkipped [] (snapshot_holds nl (h_w h)) (snapshot_psn np (h_w h)) (negb (w_keyf (h_w h) t))]).
Proof. intros Hs Hp. unfold hstep. now rewrite Hs, Hp. Qed.

Lemma hrun_cons e nl np h x r h1 o1 :
  hstep e nl np h x = (h1, o1) ->
  snd (hrun e nl np h (x :: r)) = o1 ++ snd (hrun e nl np h1 r).
Proof. intros H. cbn [hrun]. rewrite H. destruct (hrun e nl np h1 r). reflexivity. Qed.

Lemma quiet_clear w : quiet w -> quiet (clear_trace w).
Proof. intros [A [B C]]. repeat split; assumption. Qed.

(* the part of a hstate the sequential proofs need *)
Definition hq (h : hstate) : Prop :=
  h_stop h = false /\ quiet (h_w h) /\ (forall p, w_psn (h_w h) p = false).

Lemma hq_eff h w' f loc :
  hq h -> eff (clear_trace (h_w h)) w' f -> hq (mkh w' loc false).
Proof.
  intros [_ [Q P]] E. split; [reflexivity|]. split.
  - eapply eff_quiet; [exact E|]. now apply quiet_clear.
  - intros p. cbn [h_w]. rewrite (eff_psn _ _ _ E). apply P.
Qed.

(* ThreadKey::get *)
Lemma step_keyget e nl np h t :
  h_stop h = false ->
  hstep e nl np h (t, AKeyGet) =
  (mkh (set_keyf (clear_trace (h_w h)) t true)
       (upd (h_loc h) t (mkt (haskey (h_loc h t) || negb (w_keyf (h_w h) t)) (guard (h_loc h t)))) false,
   [mkco t (RB (negb (w_keyf (h_w h) t))) [] (snapshot_holds nl (h_w h)) (snapshot_psn np (h_w h)) false]).
Proof.
  intros Hs. erewrite hstep_some; [|exact Hs|reflexivity|reflexivity].
  cbn. rewrite upd_same. destruct (w_keyf (h_w h) t); reflexivity.
Qed.

Lemma hq_keyget h t loc : hq h -> hq (mkh (set_keyf (clear_trace (h_w h)) t true) loc false).
Proof. intros [_ [[A [B C]] P]]. repeat split; assumption. Qed.

Lemma blk_locks_app a b : blk_locks (a ++ b) = blk_locks a ++ blk_locks b.
Proof. unfold blk_locks. apply flat_map_app. Qed.

Lemma blk_locks_acq t m ls : blk_locks (map (acq_ev t m) ls) = locks_of ls.
Proof.
  induction ls as [|[k l] r IH]; simpl; [reflexivity|]. unfold blk_locks in *. simpl.
  rewrite IH. destruct k, m; reflexivity.
Qed.

Definition not_raw (e : ev) : Prop := match e with ERaw _ _ _ _ => False | _ => True end.

Lemma blk_locks_not_raw evs : Forall not_raw evs -> blk_locks evs = [].
Proof.
  induction 1 as [|e r He Hr IH]; [reflexivity|]. unfold blk_locks in *. simpl. rewrite IH.
  destruct e; try reflexivity. destruct He.
Qed.

Lemma run_see_all_tr t ps w :
  exists w', run nopw t (see_all ps) w = (ODone VUnit, w') /\ eff w w' (w_raw w) /\
             exists evs, w_trace w' = evs ++ w_trace w /\ Forall not_raw evs.
Proof.
  revert w. induction ps as [|p r IH]; intros w.
  - exists w. split; [reflexivity|]. split; [apply eff_refl|]. exists []. split; [reflexivity|constructor].
  - destruct (IH (emit w (ESee t (w_psn w p)))) as [w' [R [E [evs [T F]]]]].
    exists w'. split; [|split].
    + unfold see_all in *. cbn [map seqs]. unfold pthen at 1. cbn [run op_ do_op]. exact R.
    + eapply eff_trans; [|exact E]. constructor; simpl; auto. exists [ESee t (w_psn w p)]. split; auto.
      constructor; [exact I|constructor].
    + exists (evs ++ [ESee t (w_psn w p)]). split.
      * rewrite T. simpl. now rewrite <- app_assoc.
      * apply Forall_app. split; [exact F|]. constructor; [exact I|constructor].
Qed.

Lemma can_all_free m ls f : (forall x, In x (locks_of ls) -> f x = raw_free) -> can_all m ls f = true.
Proof.
  intros H. unfold can_all. apply forallb_forall. intros [k l] Hin. cbn [fst snd].
  rewrite H; [|unfold locks_of; now apply (in_map snd) in Hin]. unfold can1. destruct (shared k m); reflexivity.
Qed.

Section Steps.
  Variables (e : env) (nl np : nat) (t : tid) (m : mode).

  (* lock / read / write through an ordered algorithm (single lock, boxed, ref, owned) when every leaf is
     available: Ok, all leaves held, blocking acquisitions exactly in the order of the cached list *)
  Lemma step_acquire_guard_ordered h c s :
    hq h -> haskey (h_loc h t) = true -> coll e c = Some s -> acquirable s = true -> NoDup (leaves s) ->
    (match alg_of (e_am e) s with AlgRetry _ => False | _ => True end) ->
    can_all m (kleaves s) (w_raw (h_w h)) = true ->
    exists w',
      hstep e nl np h (t, AAcquire c m FGuard) =
      (mkh w' (upd (h_loc h) t (mkt false (Some (mkg m (gitems s))))) false,
       [mkco t ROk (rev (w_trace w')) (snapshot_holds nl w') (snapshot_psn np w') (negb (w_keyf w' t))]) /\
      eff (clear_trace (h_w h)) w' (acq_all t m (kleaves s) (w_raw (h_w h))) /\
      blk_locks (rev (w_trace w')) = locks_of (rsleaves (alg_refs (alg_of (e_am e) s))).
  Proof.
    intros [Hs [Q P]] Hk Hc Ha ND Hr Can.
    pose proof (alg_refs_leaves (e_am e) s Ha) as Hp.
    assert (NDk : NoDup (locks_of (kleaves s))) by (rewrite <- leaves_kleaves; exact ND).
    assert (ND' : NoDup (locks_of (rsleaves (alg_refs (alg_of (e_am e) s))))).
    { eapply Permutation_NoDup; [apply locks_of_perm; symmetry; exact Hp|exact NDk]. }
    set (w := clear_trace (h_w h)).
    assert (Qw : quiet w) by (now apply quiet_clear).
    assert (Can' : can_all m (rsleaves (alg_refs (alg_of (e_am e) s))) (w_raw w) = true).
    { rewrite (can_all_perm m _ _ _ Hp). exact Can. }
    (* the acquisition itself *)
    assert (X : exists w1, run nopw t (raw_lock (e_fuel e) m (alg_of (e_am e) s)) w = (ODone VUnit, w1) /\
                eff w w1 (acq_all t m (rsleaves (alg_refs (alg_of (e_am e) s))) (w_raw w)) /\
                w_trace w1 = rev (map (acq_ev t m) (rsleaves (alg_refs (alg_of (e_am e) s)))) ++ w_trace w).
    { destruct (alg_of (e_am e) s) as [k l|rs|rs|] eqn:Ea; cbn [raw_lock alg_refs] in *.
      - pose proof (run_rr_lock t m (RLeaf k l) w Qw) as X. rewrite rsleaves_one in *.
        specialize (X ND'). rewrite Can' in X. exact X.
      - pose proof (run_ordered_lock t m rs w Qw ND') as X. rewrite Can' in X. exact X.
      - destruct Hr.
      - exists w. split; [reflexivity|]. split; [apply eff_refl|reflexivity]. }
    destruct X as [w1 [R1 [E1 T1]]].
    destruct (run_see_all_tr t (gpoisons (gitems s)) w1) as [w2 [R2 [E2 [evs [T2 F2]]]]].
    assert (P2 : forall p, w_psn w2 p = false).
    { intros p. rewrite (eff_psn _ _ _ E2), (eff_psn _ _ _ E1). apply P. }
    assert (Rcall : run nopw t (with_key true false (raw_lock (e_fuel e) m (alg_of (e_am e) s) ;;
                                see_all (gpoisons (gitems s)) ;; poison_result s)) w = (ODone (VNat 0), w2)).
    { apply (run_with_key_done nopw t true false _ w (VNat 0) w2).
      rewrite (run_then_done _ _ _ _ _ VUnit w1) by exact R1.
      rewrite (run_then_done _ _ _ _ _ _ _ R2). now apply run_poison_result. }
    assert (Hprog : api_prog e (h_loc h t) (AAcquire c m FGuard) =
              Some (with_key true false (raw_lock (e_fuel e) m (alg_of (e_am e) s) ;;
                    see_all (gpoisons (gitems s)) ;; poison_result s))).
    { cbn [api_prog]. rewrite Hc, Hk. reflexivity. }
    exists w2. split; [|split].
    - rewrite (hstep_some e nl np h t _ _ _ _ Hs Hprog Rcall). cbn [api_fin]. rewrite Hc. reflexivity.
    - eapply eff_ext; [eapply eff_trans; [exact E1|exact E2]|].
      intros x. rewrite (eff_raw _ _ _ E1). apply acq_all_perm; assumption.
    - rewrite T2, T1. unfold w. cbn [clear_trace w_trace]. rewrite app_nil_r.
      rewrite rev_app_distr, rev_involutive, blk_locks_app, blk_locks_acq.
      rewrite blk_locks_not_raw; [apply app_nil_r|].
      apply Forall_rev. exact F2.
  Qed.

  (* Mutex::unlock(guard) / LockCollection::unlock(guard) / ... *)
  Lemma step_guard_unlock h items :
    hq h -> guard (h_loc h t) = Some (mkg m items) ->
    NoDup (locks_of (gleaves items)) -> held_all t m (gleaves items) (w_raw (h_w h)) = true ->
    exists w',
      hstep e nl np h (t, AGuardUnlock) =
      (mkh w' (upd (h_loc h) t (mkt true None)) false,
       [mkco t ROk (rev (w_trace w')) (snapshot_holds nl w') (snapshot_psn np w') (negb (w_keyf w' t))]) /\
      eff (clear_trace (h_w h)) w' (rel_all t m (gleaves items) (w_raw (h_w h))).
  Proof.
    intros [Hs [Q P]] Hg ND H.
    destruct (run_drop_items t m items (clear_trace (h_w h)) (quiet_clear _ Q) ND H) as [w' [R E]].
    assert (Hprog : api_prog e (h_loc h t) AGuardUnlock = Some (with_key true false (drop_items m false items))).
    { cbn [api_prog]. rewrite Hg. reflexivity. }
    exists w'. split; [|exact E].
    rewrite (hstep_some e nl np h t _ _ _ _ Hs Hprog (run_with_key_done nopw t true false _ _ _ _ R)). reflexivity.
  Qed.

  (* drop(guard) *)
  Lemma step_guard_drop h items :
    hq h -> guard (h_loc h t) = Some (mkg m items) ->
    NoDup (locks_of (gleaves items)) -> held_all t m (gleaves items) (w_raw (h_w h)) = true ->
    exists w',
      hstep e nl np h (t, AGuardDrop) =
      (mkh (set_keyf w' t false) (upd (h_loc h) t (mkt false None)) false,
       [mkco t ROk (rev (w_trace w')) (snapshot_holds nl w') (snapshot_psn np w') true]) /\
      eff (clear_trace (h_w h)) w' (rel_all t m (gleaves items) (w_raw (h_w h))).
  Proof.
    intros [Hs [Q P]] Hg ND H.
    destruct (run_drop_items t m items (clear_trace (h_w h)) (quiet_clear _ Q) ND H) as [w' [R E]].
    assert (Hprog : api_prog e (h_loc h t) AGuardDrop = Some (with_key true true (drop_items m false items))).
    { cbn [api_prog]. rewrite Hg. reflexivity. }
    pose proof (run_with_key_done nopw t true true _ _ _ _ R) as Rc. cbn iota in Rc.
    exists w'. split; [|exact E].
    rewrite (hstep_some e nl np h t _ _ _ _ Hs Hprog Rc). cbn [api_fin fst snd stops].
    cbn [set_keyf w_trace w_keyf]. rewrite upd_same. reflexivity.
  Qed.
End Steps.
