(* Prop_C11.v — C11: a panic in user code never leaks a lock or a key (fault-free worlds, every shape). *)
From HL Require Import Base Model Shape Algo Api OpsLemmas Lemmas ShapeLemmas ApiLemmas QuietLemmas Check Monitors Conc Pf_Calls Pf_Hist Pf_Hist11.
From HL Require WpMain.

(* panic inside a scoped closure: propagates, every hold released (table as before the call), the key
   dropped if it was moved in and untouched if it was only lent, other threads' keys untouched *)
Theorem C11_closure_panic :
  forall t m am s, acquirable s = true -> NoDup (leaves s) ->
  forall fuel lent body w, quiet w -> 2 <= fuel -> can_all m (kleaves s) (w_raw w) = true ->
  existsb is_cpanic body = true ->
    exists w',
      run nopw t (scoped_rest m s (alg_of am s) lent body (raw_lock fuel m (alg_of am s))) w = (OPanic, w') /\
      (forall x, w_raw w' x = w_raw w x) /\ quiet w' /\
      w_keyf w' t = (if lent then w_keyf w t else false) /\
      (forall x, x <> t -> w_keyf w' x = w_keyf w x).
Proof.
  intros t m am s Ha ND fuel lent body w Q Hf Can Hp.
  destruct (scoped_call_quiet t m am s Ha ND fuel lent body w Q Hf Can) as [w' [R [E [K1 [K2 _]]]]].
  rewrite Hp in R. exists w'. split; [exact R|]. split; [apply (ep_raw _ _ _ _ E)|].
  split; [eapply effp_quiet; eauto|]. now split.
Qed.

(* panic while a guard is alive: every hold of the guard released once, the key obtainable again *)
Theorem C11_guard_panic :
  forall t m items w, quiet w -> NoDup (locks_of (gleaves items)) -> held_all t m (gleaves items) (w_raw w) = true ->
  exists w1,
    run nopw t (Bind (with_key true true (drop_items m true items)) (fun _ => Throw)) w =
      (OPanic, set_keyf w1 t false) /\
    effp w w1 (rel_all t m (gleaves items) (w_raw w)) (set_psn_all (w_psn w) (gpoisons items)).
Proof. exact guard_panic_quiet. Qed.

(* handle_unwind never swallows a panic: what a handler does cannot turn a panic into a normal return *)
Theorem C11_catch_reraises :
  forall pw t b h w w1, run pw t b w = (OPanic, w1) -> forall v w', run pw t (Catch b h) w <> (ODone v, w').
Proof.
  intros pw t b h w w1 H v w'. simpl. rewrite H. destruct (run pw t h w1) as [o w2]. destruct o; discriminate.
Qed.

(* ---------------------------------------------------------------- every history *)
(* For EVERY fault-free history (any number of threads, any collections, any holds of other parties at the start) the
   monitor the check evaluates on the implementation holds of the model: a panic of user code — with a guard alive, or
   inside a scoped closure of any lock, wrapper or collection, with the key lent or moved in — reaches the caller; no
   release by a non-holder is issued; every lock of the guard / the call is released exactly once; the thread holds
   nothing afterwards; and the key is obtainable again exactly if it was not merely lent (and not leaked before). *)
Theorem C11_every_history :
  forall sc, wf_histb sc = true -> mon_C11 sc (model_obs sc) = true.
Proof. exact C11_all_histories_dec. Qed.
Check C11_every_history : forall sc, wf_histb sc = true -> mon_C11 sc (model_obs sc) = true.

Definition ex_hist11 : scen :=
  mks 4 1 [0; 1; 2; 3] []
      [SLeaf KMutex 0; SPoison 0 (SLeaf KRw 1); SBoxed (SSeq [SLeaf KMutex 0; SPoison 0 (SLeaf KRw 1)]);
       SRetry (SSeq [SLeaf KMutex 0; SLeaf KMutex 2]); SOwned 0 (SSeq [SLeaf KRw 3])]
      [(2, mkraw (Some 100) [])] [] [] 4
      [(0, AKeyGet); (0, AAcquire 2 Ex FGuard); (0, APanic); (0, AKeyGet);
       (0, AAcquire 2 Ex (FScoped true [CWrite 0; CPanic])); (0, AAcquire 4 Sh (FScopedTry false [CPanic]));
       (1, AKeyGet); (1, AAcquire 3 Ex (FScopedTry true [CPanic])); (1, AAcquire 1 Sh FGuard); (1, AGuardForget); (1, APanic);
       (0, AKeyGet); (0, APanic)].
Example C11_every_history_nonvacuous :
  wf_histb ex_hist11 = true /\ mon_C11 ex_hist11 (model_obs ex_hist11) = true /\
  map co_ret (model_obs ex_hist11) =
    [RB true; ROk; RPanicked; RB true; RPanicked; RPanicked; RB true; RWouldBlock; RPoisoned; ROk; RPanicked; RB true; RPanicked].
Proof. vm_compute. repeat split. Qed.


(* interleaved model, every schedule, programs that panic inside closures and with live guards included: when every
   thread has finished, every lock is free *)
Theorem C11_every_schedule_all_released :
  forall b sched l, WpMain.wfB b = true ->
  let sc := bs_sc b in
  let s := fst (run_sched (bs_wp b) (sc_env sc) (sc_nlocks sc) (binit b) sched) in
  all_over s = true -> l < sc_nlocks sc -> w_raw (b_w s) l = raw_free.
Proof. exact WpMain.every_schedule_all_released. Qed.


(* interleaved model with pauses at call boundaries, every schedule: a call that is about to re-raise a panic of user code
   (panic with a live guard, panic inside a scoped closure) holds nothing *)
Theorem C11_every_schedule_panic_holds_nothing :
  forall b sched t o k l, WpMain.wfB b = true ->
  let sc := bs_sc b in
  let s := fst (run_sched_g false false true (bs_wp b) (sc_env sc) (sc_nlocks sc) (binit b) sched) in
  let th := get_thr (b_thr s) t in
  th_over th = false -> th_cur th = Some (o, Op bpause_op k) -> k (VBool false) = Throw ->
  guard (fst (api_fin (sc_env sc) (th_loc th) o OPanic)) = None ->
  holds_b (b_w s) t l = false.
Proof.
  intros b sched t o k l W sc s th OV CU KE GN.
  exact (WpMain.every_schedule_key_back_holds_nothing b sched t o k OPanic l W OV CU KE I GN).
Qed.

Print Assumptions C11_closure_panic.
Print Assumptions C11_guard_panic.
Print Assumptions C11_catch_reraises.
Print Assumptions C11_every_history.
Print Assumptions C11_every_schedule_all_released.
Print Assumptions C11_every_schedule_panic_holds_nothing.
