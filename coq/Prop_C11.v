(* Prop_C11.v — C11: a panic in user code never leaks a lock or a key (fault-free worlds, every shape). *)
From HL Require Import Base Model Shape Algo Api OpsLemmas Lemmas ShapeLemmas ApiLemmas QuietLemmas Check Monitors Pf_Calls.

(* panic inside a scoped closure: propagates, every hold released (table as before the call), the key
   dropped if it was moved in and untouched if it was only lent, other threads' keys untouched *)
Theorem C11_closure_panic :
  forall t m am s, acquirable s = true -> NoDup (leaves s) ->
  forall fuel lent body w, quiet w -> 2 <= fuel -> can_all m (kleaves s) (w_raw w) = true ->
  existsb is_cpanic body = true ->
    exists w',
      run nopw t (scoped_rest m s (alg_of am s) lent body (raw_lock fuel m (alg_of am s))) w = (OPanic, w') /\
      (forall x, w_raw w' x = w_raw w x) /\ quiet w' /\
      w_keyf w' t = (if lent then w_keyf w t else false) /\
      (forall x, x <> t -> w_keyf w' x = w_keyf w x).
Proof.
  intros t m am s Ha ND fuel lent body w Q Hf Can Hp.
  destruct (scoped_call_quiet t m am s Ha ND fuel lent body w Q Hf Can) as [w' [R [E [K1 [K2 _]]]]].
  rewrite Hp in R. exists w'. split; [exact R|]. split; [apply (ep_raw _ _ _ _ E)|].
  split; [eapply effp_quiet; eauto|]. now split.
Qed.

(* panic while a guard is alive: every hold of the guard released once, the key obtainable again *)
Theorem C11_guard_panic :
  forall t m items w, quiet w -> NoDup (locks_of (gleaves items)) -> held_all t m (gleaves items) (w_raw w) = true ->
  exists w1,
    run nopw t (Bind (with_key true true (drop_items m true items)) (fun _ => Throw)) w =
      (OPanic, set_keyf w1 t false) /\
    effp w w1 (rel_all t m (gleaves items) (w_raw w)) (set_psn_all (w_psn w) (gpoisons items)).
Proof. exact guard_panic_quiet. Qed.

(* handle_unwind never swallows a panic: what a handler does cannot turn a panic into a normal return *)
Theorem C11_catch_reraises :
  forall pw t b h w w1, run pw t b w = (OPanic, w1) -> forall v w', run pw t (Catch b h) w <> (ODone v, w').
Proof.
  intros pw t b h w w1 H v w'. simpl. rewrite H. destruct (run pw t h w1) as [o w2]. destruct o; discriminate.
Qed.

Print Assumptions C11_closure_panic.
Print Assumptions C11_guard_panic.
Print Assumptions C11_catch_reraises.
