(* Values.v — C16: an ownership ledger for the values placed in locks and collections.  The boxed collection's
   constructor / destructor paths are written as the sequence of ownership primitives of the source
   (Box::leak, Box::from_raw, drop_in_place, mem::forget, field drops); the other kinds only move their data. *)
From HL Require Import Base.

Definition valu := (nat * nat)%type.           (* payload id, version *)

Record ledger := mkl {
  l_drops : nat -> nat;                        (* how often each payload was dropped *)
  l_cell : option (list valu);                 (* the leaked Box<UnsafeCell<L>> of a boxed collection: its contents *)
  l_cell_frees : nat;
  l_locks_alive : bool;                        (* the cached Vec<&dyn RawLock> *)
  l_locks_frees : nat;
  l_err : bool                                 (* double free / use after free / double leak *)
}.

Definition l0 : ledger := mkl (fun _ => 0) None 0 false 0 false.

Fixpoint drop_vals (d : nat -> nat) (vs : list valu) : nat -> nat :=
  match vs with [] => d | (i, _) :: r => drop_vals (upd d i (S (d i))) r end.

Inductive vop :=
| VLeak (vs : list valu)         (* Box::leak(Box::new(UnsafeCell::new(data))) + building the lock cache *)
| VLocksClear                    (* self.locks.clear() *)
| VFromRawDrop                   (* drop(Box::from_raw(self.data)) *)
| VFromRawInto                   (* Box::from_raw(self.data).into_inner() *)
| VLocksDropInPlace              (* ptr::drop_in_place(&mut self.locks) *)
| VLocksFieldDrop                (* the `locks` field dropped with the struct *)
| VDropVals (vs : list valu).    (* values in user hands are dropped *)

Definition vstep (l : ledger) (o : vop) : ledger * list valu :=
  match o with
  | VLeak vs =>
      (mkl (l_drops l) (Some vs) (l_cell_frees l) true (l_locks_frees l)
           (l_err l || (match l_cell l with Some _ => true | None => false end)), [])
  | VLocksClear => (l, [])
  | VFromRawDrop =>
      match l_cell l with
      | Some vs => (mkl (drop_vals (l_drops l) vs) None (S (l_cell_frees l)) (l_locks_alive l) (l_locks_frees l) (l_err l), [])
      | None => (mkl (l_drops l) None (S (l_cell_frees l)) (l_locks_alive l) (l_locks_frees l) true, [])
      end
  | VFromRawInto =>
      match l_cell l with
      | Some vs => (mkl (l_drops l) None (S (l_cell_frees l)) (l_locks_alive l) (l_locks_frees l) (l_err l), vs)
      | None => (mkl (l_drops l) None (S (l_cell_frees l)) (l_locks_alive l) (l_locks_frees l) true, [])
      end
  | VLocksDropInPlace | VLocksFieldDrop =>
      (mkl (l_drops l) (l_cell l) (l_cell_frees l) false (S (l_locks_frees l)) (l_err l || negb (l_locks_alive l)), [])
  | VDropVals vs => (mkl (drop_vals (l_drops l) vs) (l_cell l) (l_cell_frees l) (l_locks_alive l) (l_locks_frees l) (l_err l), [])
  end.

Fixpoint vrun (l : ledger) (ops : list vop) : ledger * list valu :=
  match ops with
  | [] => (l, [])
  | o :: r => let (l1, out1) := vstep l o in
              let (l2, out2) := vrun l1 r in (l2, out1 ++ out2)
  end.

(* boxed.rs, function by function *)
Definition boxed_new (vs : list valu) : list vop := [VLeak vs].                       (* new_unchecked: 209-223 *)
Definition boxed_drop : list vop := [VLocksClear; VFromRawDrop; VLocksFieldDrop].     (* Drop::drop 148-160, then fields *)
Definition boxed_into_child : list vop := [VLocksDropInPlace; VFromRawInto].          (* into_child 190-202; mem::forget(self) *)

(* ---------------------------------------------------------------- what a path does to n freshly built values *)
Inductive vpath :=
| PDrop | PIntoInner | PIntoChild | PLockThenIntoInner | PGetMut | PIntoIter | PIntoIterPartial | PFromIter | PExtend
| PTryNewReject | PTryNewAccept | PRefColl | PDefault | PNestedIntoInner | PPoisonableIntoInner
| PDropUnw.          (* dropped by unwinding: the collection is a local of a frame a panic passes through *)

Inductive vkind := VKBoxed | VKOwned | VKRetry | VKRef.

Definition fresh (n : nat) (wpos : option nat) : list valu :=
  map (fun i => (i, match wpos with Some p => if Nat.eqb p i then 1 else 0 | None => 0 end)) (seq 0 n).

(* the values a path hands back to the user (by declared position) and the final ledger once the user dropped them *)
Definition vmodel (k : vkind) (p : vpath) (n : nat) (wpos : option nat) : list valu * ledger :=
  let vs := fresh n wpos in
  let writes_seen := match k with VKOwned => fresh n None | _ => vs end in   (* the harness writes through child(), which owned lacks *)
  match p with
  | PDrop | PDropUnw =>
      match k with
      | VKBoxed => ([], fst (vrun l0 (boxed_new (fresh n None) ++ boxed_drop)))
      | _ => ([], fst (vrun l0 [VDropVals (fresh n None)]))
      end
  | PIntoInner | PIntoChild =>
      match k with
      | VKBoxed => let (l, out) := vrun l0 (boxed_new vs ++ boxed_into_child) in (out, fst (vrun l [VDropVals out]))
      | _ => (writes_seen, fst (vrun l0 [VDropVals writes_seen]))
      end
  | PLockThenIntoInner | PFromIter | PExtend | PIntoIter | PPoisonableIntoInner =>
      match k with
      | VKBoxed => let (l, out) := vrun l0 (boxed_new (fresh n None) ++ boxed_into_child) in (out, fst (vrun l [VDropVals out]))
      | _ => (fresh n None, fst (vrun l0 [VDropVals (fresh n None)]))
      end
  | PGetMut => let w := map (fun i => (i, 1)) (seq 0 n) in (w, fst (vrun l0 [VDropVals w]))
  | PIntoIterPartial =>
      let (l, out) := vrun l0 (boxed_new (fresh n None) ++ boxed_into_child) in
      (firstn 1 out, fst (vrun l [VDropVals out]))
  | PTryNewReject =>
      match k with
      | VKBoxed => ([], fst (vrun l0 (boxed_new (fresh n None) ++ boxed_drop ++ [VDropVals [(31, 0)]])))
      | _ => ([], fst (vrun l0 [VDropVals (fresh n None ++ [(31, 0)])]))
      end
  | PTryNewAccept =>
      let (l, out) := vrun l0 (boxed_new (fresh n None) ++ boxed_into_child) in (out, fst (vrun l [VDropVals (out ++ [(31, 0)])]))
  | PRefColl => (fresh n None, fst (vrun l0 [VDropVals (fresh n None)]))
  | PDefault => ([], fst (vrun l0 (boxed_new [] ++ boxed_drop)))
  | PNestedIntoInner =>
      let all := fresh n None ++ [(30, 0)] in
      let (l, out) := vrun l0 (boxed_new all ++ boxed_into_child) in (out, fst (vrun l [VDropVals out]))
  end.

Definition drops_list (l : ledger) : list nat := map (l_drops l) (seq 0 32).

(* the monitor: exactly-once drops of exactly the values that were created, and nothing went wrong *)
Definition created (k : vkind) (p : vpath) (n : nat) : list nat :=
  match p with
  | PDefault => []                                   (* Default of Option payloads: nothing to drop *)
  | _ => seq 0 n ++ match p with PTryNewReject | PTryNewAccept => [31] | PNestedIntoInner => [30] | _ => [] end
  end.

Definition mon_C16 (k : vkind) (p : vpath) (n : nat) (wpos : option nat) (returned : list valu) (drops : list nat) : bool :=
  forallb (fun i => Nat.eqb (nth i drops 0) (if memb i (created k p n) then 1 else 0)) (seq 0 32) &&
  (* the values come back at their declared positions *)
  match p with
  | PDrop | PDropUnw | PTryNewReject | PDefault => is_nil returned
  | PIntoIterPartial => Nat.eqb (length returned) (Nat.min 1 n)
  | _ => Nat.eqb (length returned) (length (created k p n) - match p with PTryNewAccept => 1 | _ => 0 end)
  end &&
  forallb (fun x => Nat.eqb (fst (fst x)) (snd x))
          (combine returned (match p with PNestedIntoInner => seq 0 n ++ [30] | _ => seq 0 (length returned) end)).
