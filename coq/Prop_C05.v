(* Prop_C05.v — C05: every hold is released exactly once, in its own mode, by its holder.
   Call-level theorems (fault-free worlds, every shape); `eff` includes that every event emitted is clean:
   no release by a non-holder / in the wrong mode (RBad) is ever issued. *)
From HL Require Import Base Model Shape Algo Api OpsLemmas Lemmas ShapeLemmas ApiLemmas QuietLemmas Check Monitors Pf_Calls.

Theorem C05_guard_drop_exact :
  forall t m items w, quiet w -> NoDup (locks_of (gleaves items)) -> held_all t m (gleaves items) (w_raw w) = true ->
  exists w', run nopw t (drop_items m false items) w = (ODone VUnit, w') /\
             eff w w' (rel_all t m (gleaves items) (w_raw w)).
Proof. exact run_drop_items. Qed.

Theorem C05_collection_unlock_exact :
  forall t m am s w, quiet w -> acquirable s = true -> NoDup (leaves s) -> held_all t m (kleaves s) (w_raw w) = true ->
  exists w', run nopw t (raw_unlock m (alg_of am s)) w = (ODone VUnit, w') /\
             eff w w' (rel_all t m (kleaves s) (w_raw w)).
Proof. exact run_raw_unlock. Qed.

(* the release undoes exactly the acquisition: own mode, own holds *)
Theorem C05_release_inverse :
  forall t k m s, can1 k m s = true -> rel1 t k m (acq1 t k m s) = s.
Proof. exact rel_acq1. Qed.

(* the audit never fires: a release accepted by the raw-lock specification is one by the holder, in the mode held *)
Theorem C05_release_needs_hold :
  forall t k m s, raw_apply t (rel_op k m) s false = if held1 t k m s then AOk (rel1 t k m s) else ABad.
Proof. exact raw_apply_rel. Qed.

(* a failed try leaves nothing behind; a failed rollback-free path does not exist: see C04_try_all_or_nothing *)
Theorem C05_all_free_after_roundtrip :
  forall t m ls f, NoDup (locks_of ls) -> can_all m ls f = true ->
  forall x, rel_all t m ls (acq_all t m ls f) x = f x.
Proof. exact rel_acq_all. Qed.

Print Assumptions C05_guard_drop_exact.
Print Assumptions C05_collection_unlock_exact.
