(* Prop_C05.v — C05: every hold is released exactly once, in its own mode, by its holder.
   Call-level theorems (fault-free worlds, every shape); `eff` includes that every event emitted is clean:
   no release by a non-holder / in the wrong mode (RBad) is ever issued. *)
From HL Require Import Base Model Shape Algo Api OpsLemmas Lemmas ShapeLemmas ApiLemmas QuietLemmas Check Monitors Conc Pf_Calls Pf_Acct Pf_Hist Pf_Hist5.
From HL Require WpMain.

Theorem C05_guard_drop_exact :
  forall t m items w, quiet w -> NoDup (locks_of (gleaves items)) -> held_all t m (gleaves items) (w_raw w) = true ->
  exists w', run nopw t (drop_items m false items) w = (ODone VUnit, w') /\
             eff w w' (rel_all t m (gleaves items) (w_raw w)).
Proof. exact run_drop_items. Qed.

Theorem C05_collection_unlock_exact :
  forall t m am s w, quiet w -> acquirable s = true -> NoDup (leaves s) -> held_all t m (kleaves s) (w_raw w) = true ->
  exists w', run nopw t (raw_unlock m (alg_of am s)) w = (ODone VUnit, w') /\
             eff w w' (rel_all t m (kleaves s) (w_raw w)).
Proof. exact run_raw_unlock. Qed.

(* the release undoes exactly the acquisition: own mode, own holds *)
Theorem C05_release_inverse :
  forall t k m s, can1 k m s = true -> rel1 t k m (acq1 t k m s) = s.
Proof. exact rel_acq1. Qed.

(* the audit never fires: a release accepted by the raw-lock specification is one by the holder, in the mode held *)
Theorem C05_release_needs_hold :
  forall t k m s, raw_apply t (rel_op k m) s false = if held1 t k m s then AOk (rel1 t k m s) else ABad.
Proof. exact raw_apply_rel. Qed.

(* a failed try leaves nothing behind; a failed rollback-free path does not exist: see C04_try_all_or_nothing *)
Theorem C05_all_free_after_roundtrip :
  forall t m ls f, NoDup (locks_of ls) -> can_all m ls f = true ->
  forall x, rel_all t m ls (acq_all t m ls f) x = f x.
Proof. exact rel_acq_all. Qed.

(* ---------------------------------------------------------------- every history *)
(* For EVERY fault-free history of any number of threads over any collections (any holds of other parties at the start) the
   monitor the check evaluates on the implementation holds of the model: no call — completed, unwinding, or cut because
   it has to wait — ever issues a release for a lock its thread does not hold (or in the wrong mode); dropping or
   unlocking a guard releases every hold of that guard exactly once, releases nothing else, and leaves none of them
   held; a scoped call (returning or unwinding) releases each of its leaves exactly once; and when no guard of the history
   is alive or leaked any more, every lock is exactly as it was at the start (holds of other parties included). *)
Theorem C05_every_history :
  forall sc, wf_histb sc = true -> mon_C05 sc (model_obs sc) = true.
Proof. exact C05_all_histories_dec. Qed.
Check C05_every_history : forall sc, wf_histb sc = true -> mon_C05 sc (model_obs sc) = true.

(* an intermediate form (the monitor without the clause about calls that are cut), kept because its proof is the route *)
Theorem C05_every_history_partial :
  forall sc, wf_histb sc = true -> mon_C05p sc (model_obs sc) = true.
Proof. exact C05_all_histories_partial_dec. Qed.

(* the monitor of the check implies the proved one (so the proved one is not stronger than what the implementation is held to) *)
Theorem C05_partial_is_weaker : forall sc obs, mon_C05 sc obs = true -> mon_C05p sc obs = true.
Proof. exact mon_C05_implies_partial. Qed.

(* hold accounting, for EVERY program, world (faults included) and outcome: what a thread holds afterwards is what it
   held before plus its successful acquisitions minus its successful releases in the trace *)
Theorem C05_hold_accounting :
  forall pw t p w out w', run pw t p w = (out, w') ->
  exists evs, w_trace w' = evs ++ w_trace w /\ Forall (by_thread t) evs /\
              forall l, hc t (w_raw w' l) + releases_of l evs = hc t (w_raw w l) + acquires_of l evs.
Proof. exact run_acct. Qed.

Definition ex_hist5 : scen :=
  mks 3 1 [0; 1; 2] []
      [SLeaf KMutex 0; SPoison 0 (SLeaf KRw 1); SBoxed (SSeq [SLeaf KMutex 0; SPoison 0 (SLeaf KRw 1)]);
       SRetry (SSeq [SLeaf KMutex 0; SLeaf KMutex 2])]
      [(2, mkraw (Some 100) [])] [] [] 4
      [(0, AKeyGet); (0, AAcquire 2 Ex FGuard); (1, AKeyGet); (1, AAcquire 3 Ex FTry);
       (0, AGuardRead 1); (0, AGuardUnlock); (0, AAcquire 1 Sh FGuard); (1, AAcquire 1 Sh FGuard); (0, AGuardDrop);
       (1, AGuardDrop); (0, AKeyGet); (0, AAcquire 1 Sh (FScoped true [CRead 0; CPanic]))].
Example C05_every_history_nonvacuous :
  wf_histb ex_hist5 = true /\ length (model_obs ex_hist5) = 12 /\ mon_C05p ex_hist5 (model_obs ex_hist5) = true /\
  mon_C05 ex_hist5 (model_obs ex_hist5) = true.
Proof. vm_compute. repeat split. Qed.


(* interleaved model, every schedule: when every thread has finished, every lock is free *)
Theorem C05_every_schedule_all_released :
  forall b sched l, WpMain.wfB b = true ->
  let sc := bs_sc b in
  let s := fst (run_sched (bs_wp b) (sc_env sc) (sc_nlocks sc) (binit b) sched) in
  all_over s = true -> l < sc_nlocks sc -> w_raw (b_w s) l = raw_free.
Proof. exact WpMain.every_schedule_all_released. Qed.


(* interleaved model, every schedule: a thread about to release a lock holds it, in the mode of the release — happylock never
   issues a release for a lock the calling thread does not hold *)
Theorem C05_every_schedule_release_by_holder :
  forall b sched t k l, WpMain.wfB b = true ->
  let sc := bs_sc b in
  let s := fst (run_sched (bs_wp b) (sc_env sc) (sc_nlocks sc) (binit b) sched) in
  parked (get_thr (b_thr s) t) = Some (ORaw k l) ->
  match k with
  | OUnlock => writer_is (w_raw (b_w s) l) t = true
  | OUnlockSh => memb t (readers (w_raw (b_w s) l)) = true
  | _ => True
  end.
Proof. exact WpMain.every_schedule_release_held. Qed.

Print Assumptions C05_guard_drop_exact.
Print Assumptions C05_collection_unlock_exact.
Print Assumptions C05_every_history.
Print Assumptions C05_every_history_partial.
Print Assumptions C05_hold_accounting.
Print Assumptions C05_every_schedule_all_released.
Print Assumptions C05_every_schedule_release_by_holder.
