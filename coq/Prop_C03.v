(* Prop_C03.v — C03: total allocation: whenever the key comes back, every lock of that guard / call has
   already been released.  Call-level theorems in fault-free worlds for every shape (C03_every_history: the
   monitor holds of every fault-free API-call-atomic history; C03_every_schedule_waits_with_own_locks_only: in every state
   of every schedule of the interleaved model a thread waiting inside an acquisition holds only leaves of what it is
   acquiring — nothing from before the call). *)
From HL Require Import Base Model Shape Algo Api Conc OpsLemmas Lemmas ShapeLemmas ApiLemmas QuietLemmas Check Monitors Pf_Calls Pf_Hist.
From HL Require WpMain Wp03.

(* drop(guard) / unlock(guard): exactly the guard's holds are released, the table is what it was before the
   acquisition *)
Theorem C03_release_restores :
  forall t m ls f, NoDup (locks_of ls) -> can_all m ls f = true ->
  forall x, rel_all t m ls (acq_all t m ls f) x = f x.
Proof. exact rel_acq_all. Qed.

Theorem C03_guard_drop_releases_all :
  forall t m items w, quiet w -> NoDup (locks_of (gleaves items)) -> held_all t m (gleaves items) (w_raw w) = true ->
  exists w', run nopw t (drop_items m false items) w = (ODone VUnit, w') /\
             eff w w' (rel_all t m (gleaves items) (w_raw w)).
Proof. exact run_drop_items. Qed.

(* unlock(guard) as a history step: Ok, key back in hand, holds released *)
Theorem C03_unlock_step :
  forall e nl np t m h items,
    hq h -> guard (h_loc h t) = Some (mkg m items) ->
    NoDup (locks_of (gleaves items)) -> held_all t m (gleaves items) (w_raw (h_w h)) = true ->
    exists w',
      hstep e nl np h (t, AGuardUnlock) =
      (mkh w' (upd (h_loc h) t (mkt true None)) false,
       [mkco t ROk (rev (w_trace w')) (snapshot_holds nl w') (snapshot_psn np w') (negb (w_keyf w' t))]) /\
      eff (clear_trace (h_w h)) w' (rel_all t m (gleaves items) (w_raw (h_w h))).
Proof. exact step_guard_unlock. Qed.

(* a scoped call returns (or unwinds) with the table exactly as it found it: see C04_scoped_call / C11 *)
Theorem C03_scoped_restores :
  forall t m am s, acquirable s = true -> NoDup (leaves s) ->
  forall fuel lent body w, quiet w -> 2 <= fuel -> can_all m (kleaves s) (w_raw w) = true ->
    exists out w',
      run nopw t (scoped_rest m s (alg_of am s) lent body (raw_lock fuel m (alg_of am s))) w = (out, w') /\
      forall x, w_raw w' x = w_raw w x.
Proof.
  intros t m am s Ha ND fuel lent body w Q Hf Can.
  destruct (scoped_call_quiet t m am s Ha ND fuel lent body w Q Hf Can) as [w' [R [E _]]].
  eexists. exists w'. split; [exact R|apply (ep_raw _ _ _ _ E)].
Qed.

(* a thread alone never waits for itself: from a table in which it holds nothing of s, lock succeeds *)
Theorem C03_no_self_wait :
  forall t m am s, acquirable s = true -> NoDup (leaves s) ->
  forall fuel w, quiet w -> 2 <= fuel -> (forall l, In l (leaves s) -> w_raw w l = raw_free) ->
    exists w', run nopw t (raw_lock fuel m (alg_of am s)) w = (ODone VUnit, w').
Proof.
  intros t m am s Ha ND fuel w Q Hf Hfree.
  pose proof (raw_lock_all_or_wait t m am s Ha ND fuel w Q Hf) as L.
  rewrite can_all_free in L.
  - destruct L as [w' [R _]]. now exists w'.
  - intros x Hx. apply Hfree. now rewrite leaves_kleaves.
Qed.

(* ---------------------------------------------------------------- every history *)
(* For EVERY fault-free history (any number of threads, any interleaving of whole calls, any collections of any
   kind / nesting, any holds of other threads present from the start) the monitor that the check evaluates on the
   implementation's observation holds of the model's observation.  The hypotheses are decidable ([wf_histb]) and
   evaluated on every generated scenario. *)
Theorem C03_every_history :
  forall sc, wf_histb sc = true -> mon_C03 sc (model_obs sc) = true.
Proof. exact C03_all_histories_dec. Qed.
Check C03_every_history : forall sc, wf_histb sc = true -> mon_C03 sc (model_obs sc) = true.

(* the hypotheses are met by a non-trivial scenario: two threads, a boxed collection over a mutex and a poisonable
   rwlock, a retrying collection sharing the mutex, a lock held by a third party from the start, guards, a scoped
   call whose closure panics, a forgotten guard, formatting while holding, a try that fails *)
Definition ex_hist : scen :=
  mks 3 1 [0; 1; 2] []
      [SLeaf KMutex 0; SPoison 0 (SLeaf KRw 1); SBoxed (SSeq [SLeaf KMutex 0; SPoison 0 (SLeaf KRw 1)]);
       SRetry (SSeq [SLeaf KMutex 0; SLeaf KMutex 2])]
      [(2, mkraw (Some 100) [])] [] [] 4
      [(0, AKeyGet); (0, AAcquire 2 Ex FGuard); (0, AFmt 2); (1, AKeyGet); (1, AAcquire 3 Ex FTry); (1, AFmt 3);
       (0, AGuardRead 1); (0, AGuardUnlock); (0, AAcquire 1 Sh (FScoped true [CRead 0; CPanic])); (0, AIsPoisoned 1);
       (0, AAcquire 0 Ex FGuard); (0, AGuardForget); (1, AAcquire 0 Ex FTry); (1, AKeyDrop); (0, AKeyGet)].
Example C03_every_history_nonvacuous :
  wf_histb ex_hist = true /\ length (model_obs ex_hist) = 15 /\ mon_C03 ex_hist (model_obs ex_hist) = true.
Proof. vm_compute. repeat split. Qed.


(* interleaved model, every schedule: a thread that waits inside an acquisition (of a lock or collection c) holds only
   leaves of c: everything it held before was released before the key came back *)
Theorem C03_every_schedule_waits_with_own_locks_only :
  forall b sched t k l c m f p l', Wp03.wfB03 b = true ->
  let sc := bs_sc b in
  let s := fst (run_sched (bs_wp b) (sc_env sc) (sc_nlocks sc) (binit b) sched) in
  parked (get_thr (b_thr s) t) = Some (ORaw k l) -> rop_blocking k = true ->
  th_cur (get_thr (b_thr s) t) = Some (AAcquire c m f, p) ->
  holds_b (b_w s) t l' = true -> In l' (leaves (shape_of sc c)).
Proof. exact Wp03.every_schedule_waits_with_own_locks_only. Qed.

(* non-vacuity: thread 0 waits for the second lock of a boxed collection while holding the first; thread 1 holds the second *)
Definition ex03b : bscen :=
  mkbs (mks 3 0 [0; 1; 2] [] [SBoxed (SSeq [SLeaf KMutex 0; SLeaf KMutex 1]); SLeaf KMutex 1; SLeaf KMutex 2] [] [] [] 6 [])
       false
       [[AKeyGet; AAcquire 2 Ex FGuard; AGuardDrop; AKeyGet; AAcquire 0 Ex FGuard; AGuardDrop];
        [AKeyGet; AAcquire 1 Ex FGuard; AGuardWrite 0; AGuardDrop]].
Example C03_schedule_example :
  Wp03.wfB03 ex03b = true /\
  let s := fst (run_sched false (sc_env (bs_sc ex03b)) 3 (binit ex03b) [1; 1; 0; 0; 0; 0; 0]) in
  waits_b false s 0 = Some 1 /\ map (fun l => holds_b (b_w s) 0 l) [0; 1; 2] = [true; false; false].
Proof. vm_compute. auto. Qed.


(* interleaved model with pauses at call boundaries (a thread whose call has run to its end is a state of the system before
   the call returns), every schedule: when the call hands the key back without a guard — guard dropped or unlocked, scoped
   call returned or unwound, failed try, panic with a live guard — the thread holds nothing *)
Theorem C03_every_schedule_key_back_holds_nothing :
  forall b sched t o k out l, WpMain.wfB b = true ->
  let sc := bs_sc b in
  let s := fst (run_sched_g false false true (bs_wp b) (sc_env sc) (sc_nlocks sc) (binit b) sched) in
  let th := get_thr (b_thr s) t in
  th_over th = false -> th_cur th = Some (o, Op bpause_op k) -> k (VBool false) = term_of out ->
  (match out with ODone _ | OPanic => True | _ => False end) ->
  guard (fst (api_fin (sc_env sc) (th_loc th) o out)) = None ->
  holds_b (b_w s) t l = false.
Proof. exact WpMain.every_schedule_key_back_holds_nothing. Qed.

(* non-vacuity: thread 1 of ex03b at the end of its guard drop *)
Example C03_boundary_example :
  WpMain.wfB ex03b = true /\
  let s := fst (run_sched_g false false true false (sc_env (bs_sc ex03b)) 3 (binit ex03b) [1; 1; 1; 1; 1; 1; 1]) in
  (match th_cur (get_thr (b_thr s) 1) with Some (AGuardDrop, Op (OKilled 1) k) => match k (VBool false) with Ret _ => true | _ => false end | _ => false end) = true /\
  map (fun l => holds_b (b_w s) 1 l) [0; 1; 2] = [false; false; false].
Proof. vm_compute. auto. Qed.

Print Assumptions C03_guard_drop_releases_all.
Print Assumptions C03_unlock_step.
Print Assumptions C03_scoped_restores.
Print Assumptions C03_no_self_wait.
Print Assumptions C03_every_history.
Print Assumptions C03_every_schedule_waits_with_own_locks_only.
Print Assumptions C03_every_schedule_key_back_holds_nothing.
